#!/bin/bash
# tools/run_all.sh [quick|thorough] [ids...]  - runs the checks sequentially, prints one status line each.
TIER="${1:-quick}"; shift
cd "$(dirname "$0")/.."
IDS="$@"; [ -z "$IDS" ] && IDS="C01 C02 C03 C04 C05 C06 C07 C08 C09 C10 C11 C12 C13 C14 C15 C16 C17 C18 C19 C20"
rc=0
for c in $IDS; do
  s=$(date +%s)
  out=$(./vcheck $c --tier $TIER 2>/dev/null); e=$?
  echo "$c exit=$e $(( $(date +%s) - s ))s $(echo "$out" | grep "^$c tier" | cut -c1-160) known=$(echo "$out" | grep -c '^KNOWN-FINDING') viol=$(echo "$out" | grep -c '^VIOLATION')"
  [ $e -ne 0 ] && rc=1
done
exit $rc

import numpy as np, jax, jax.numpy as jnp, traceback
import fedjax
from fedjax.core import metrics, serialization, tree_util
from fedjax.aggregators import compression, walsh_hadamard

def t(name, f):
    try:
        print(name, '->', f())
    except Exception as e:
        print(name, 'EXC', type(e).__name__, str(e)[:200])

# C14 topk negative k
for k in [-5,-1,0,1,3,5]:
    t(f'topk k={k}', lambda: metrics.TopKAccuracy(k=k).evaluate_example({'y':jnp.array(0)}, jnp.array([3.,2.,1.])).result())
# OOV multiple
t('oov2', lambda: metrics.SequenceTokenOOVRate(oov_target_values=(2,3)).evaluate_example({'y':jnp.array([1,2,3,0])}, None))
# C11 drive zero leaf
t('drive0', lambda: compression.drive_pytree({'a': jnp.zeros(4), 'b': jnp.ones(4)}))
# uniform overflow
t('uq big', lambda: compression.uniform_stochastic_quantize(jnp.array([-3e38, 0., 3e38]), 4, jax.random.PRNGKey(0)))
t('uq range', lambda: compression.uniform_stochastic_quantize(jnp.array([1e-30, 1., 1e30]), 4, jax.random.PRNGKey(0)))
# C18 explicit small_n
t('wht small_n', lambda: walsh_hadamard.walsh_hadamard_transform(jnp.arange(8.), 4))
t('wht small_n kw', lambda: walsh_hadamard.walsh_hadamard_transform(jnp.arange(8.), small_n=2))
t('wht default', lambda: walsh_hadamard.walsh_hadamard_transform(jnp.arange(8.)))
t('wht len1', lambda: walsh_hadamard.walsh_hadamard_transform(jnp.arange(1.)+3))
t('rot scalar', lambda: walsh_hadamard.structured_rotation(jnp.array(3.), jax.random.PRNGKey(0)))
t('rot size1', lambda: walsh_hadamard.structured_rotation(jnp.array([3.]), jax.random.PRNGKey(0)))
def rt(x):
    k=jax.random.PRNGKey(1); y,s=walsh_hadamard.structured_rotation(x,k); return walsh_hadamard.inverse_structured_rotation(y,k,s)
t('rot rt 5', lambda: rt(jnp.arange(5.)))
t('rot rt size1', lambda: rt(jnp.array([3.])))
t('rot rt 2x3', lambda: rt(jnp.arange(6.).reshape(2,3)))
# C16
def rts(x): return serialization.msgpack_deserialize(serialization.msgpack_serialize(x))
t('ser swapped', lambda: rts({'a': np.arange(3, dtype='>i4')}))
t('ser struct', lambda: rts({'a': np.zeros(2, dtype=[('x','i4'),('y','f4')])}))
t('ser strarr', lambda: rts({'a': np.array(['ab','c'])}))
t('ser bytesS', lambda: rts({'a': np.array([b'ab',b'c'])}))
t('ser tuple', lambda: rts({'a': (1,2)}))
t('ser objmixed', lambda: rts({'a': np.array([b'a','s'], dtype=object)}))
t('ser objint', lambda: rts({'a': np.array([1,2], dtype=object)}))
t('ser emptyobj', lambda: rts({'a': np.array([], dtype=object)}))
t('ser 0d', lambda: rts({'a': np.array(3.5)}))
t('ser fortran', lambda: rts({'a': np.asfortranarray(np.arange(6).reshape(2,3))}))
t('ser strided', lambda: rts({'a': np.arange(10)[::3]}))
t('ser bf16', lambda: rts({'a': jnp.ones(2, dtype=jnp.bfloat16)}))
t('ser f16', lambda: rts({'a': np.ones(2, dtype=np.float16)}))
t('ser npscalar', lambda: rts({'a': np.float32(2.5), 'b': np.bool_(True), 'c': 3, 'd': 2.5, 'e': True, 'f': 1+2j, 'g': None, 'h': 's', 'i': b'b'}))
t('ser c64', lambda: rts({'a': np.array([1+2j], dtype=np.complex64)}))
# C07
t('clip zero', lambda: tree_util.tree_clip_by_global_norm({'a': jnp.zeros(3)}, 1.0))
t('clip zero0', lambda: tree_util.tree_clip_by_global_norm({'a': jnp.zeros(3)}, 0.0))
t('mean zero w', lambda: tree_util.tree_mean([({'a': jnp.ones(3)}, 0.0), ({'a': jnp.ones(3)}, 0.0)]))
t('mean empty', lambda: tree_util.tree_mean([]))
t('mean int', lambda: tree_util.tree_mean([({'a': jnp.array([1,2])}, 1), ({'a': jnp.array([3,5])}, 2)]))

import itertools, numpy as np, os, tempfile, traceback
import fedjax
from fedjax.core import in_memory_federated_data as im, sqlite_federated_data as sq, federated_data as fdm, client_samplers as cs

U = [b'a', b'a\x00', b'ab', b'b', b'b\x00\x00']
sizes = {b'a':2, b'a\x00':0, b'ab':3, b'b':1, b'b\x00\x00':2}
table = {}
off=0
for cid in U:
    n=sizes[cid]; table[cid]={'x': np.arange(off,off+n,dtype=np.int32), 't': np.zeros((n,),dtype=np.int32)}; off+=n
d=tempfile.mkdtemp(); path=os.path.join(d,'fd.sqlite')
with sq.SQLiteFederatedDataBuilder(path) as b:
    b.add_many([(cid, table[cid]) for cid in [U[3],U[0],U[4],U[2],U[1]]])
roots = {'mem': lambda: im.InMemoryFederatedData(dict(table)), 'sql': lambda: sq.SQLiteFederatedData.new(path)}
def f1(cid, ex): return {**ex, 't': ex['t']*10+1}
def f2(cid, ex): return {**ex, 't': ex['t']*10+2}
def g1(ex): return {**ex, 't': ex['t']*10+3}
def g2(ex): return {**ex, 't': ex['t']*10+4}
bounds=[None]+U
ops=[('slice',s,e) for s in bounds for e in bounds]+[('pc',f1),('pc',f2),('pb',g1),('pb',g2),('sub',(b'a',b'b')),('sub',(b'ab',)),('sub',tuple(U))]
def apply(fd, op):
    if op[0]=='slice': return fd.slice(op[1],op[2])
    if op[0]=='pc': return fd.preprocess_client(op[1])
    if op[0]=='pb': return fd.preprocess_batch(op[1])
    if op[0]=='sub': return fdm.SubsetFederatedData(fd, op[1])
def observe(fd):
    o={}
    def t(name,f):
        try: o[name]=f()
        except Exception as e: o[name]='EXC:'+type(e).__name__
    t('n', fd.num_clients)
    t('ids', lambda: sorted(fd.client_ids()))
    t('sizes', lambda: sorted(fd.client_sizes()))
    t('clients', lambda: sorted((c, ds.all_examples()['x'].tolist(), ds.all_examples()['t'].tolist(), [b['t'].tolist() for b in ds.batch(batch_size=2)]) for c,ds in fd.clients()))
    for c in U+[b'zz']:
        t(('size',c), lambda: fd.client_size(c))
        t(('get',c), lambda: fd.get_client(c).all_examples()['x'].tolist())
    t('getmany', lambda: [(c, ds.all_examples()['x'].tolist()) for c,ds in fd.get_clients([b'b', b'a'])])
    return o
diffs={}
for depth in (1,2):
    for seq in itertools.product(ops, repeat=depth):
        res={}
        for rn,mk in roots.items():
            try:
                fd=mk()
                for op in seq: fd=apply(fd,op)
                res[rn]=observe(fd)
            except Exception as e:
                res[rn]='BUILD-EXC:'+type(e).__name__
        if res['mem']!=res['sql']:
            key=(str(res['mem'])[:60] if isinstance(res['mem'],str) else 'obs', str(res['sql'])[:60] if isinstance(res['sql'],str) else 'obs')
            diffs.setdefault(key,[]).append(seq)
for k,v in diffs.items():
    print(k, len(v))
    s=v[0]; print('   e.g.', [ (o[0],)+tuple(x if not callable(x) else x.__name__ for x in o[1:]) for o in s])
    if k==('obs','obs'):
        for s in v[:3]:
            rm={}; 
            for rn,mk in roots.items():
                fd=mk()
                for op in s: fd=apply(fd,op)
                rm[rn]=observe(fd)
            for kk in rm['mem']:
                if rm['mem'][kk]!=rm['sql'][kk]: print('      ', [ (o[0],)+tuple(x if not callable(x) else x.__name__ for x in o[1:]) for o in s], kk, rm['mem'][kk], rm['sql'][kk])
import shutil; shutil.rmtree(d)

import itertools, numpy as np, types, sys
import fedjax
from fedjax.core import client_datasets as cds

def ref_final(r, B, buckets):
    sizes=[B]; 
    for _ in range(buckets-1): sizes.append(sizes[-1]//2)
    c=[s for s in sizes if s>=r]
    return min(c)
bad=0; n=0
# C03
for N in range(0,18):
  for B in list(range(1,10))+[16,20]:
    ds = cds.ClientDataset({'x': np.arange(N, dtype=np.int32), 'z': np.arange(N*2, dtype=np.float32).reshape(N,2)+1})
    for drop in (False, True):
        bs = list(ds.batch(batch_size=B, drop_remainder=drop)); n+=1
        exp = [np.arange(N)[i:i+B] for i in range(0,N,B)]
        if drop: exp=[e for e in exp if len(e)==B]
        got=[b['x'] for b in bs]
        if len(exp)!=len(got) or any(not np.array_equal(a,b) for a,b in zip(exp,got)): bad+=1; print('C03 batch', N,B,drop)
    for buckets in range(1,6):
        bs = list(ds.padded_batch(batch_size=B, num_batch_size_buckets=buckets)); n+=1
        exp = [np.arange(N)[i:i+B] for i in range(0,N,B)]
        ok = len(exp)==len(bs)
        for i,(e,b) in enumerate(zip(exp,bs)):
            m=b[cds.EXAMPLE_MASK_KEY]
            size = B if (i<len(exp)-1 or len(e)==B) else ref_final(len(e),B,buckets)
            ok &= len(m)==size and m.dtype==np.bool_ and m[:len(e)].all() and not m[len(e):].any()
            ok &= np.array_equal(b['x'][:len(e)], e) and not b['x'][len(e):].any() and b['z'].shape==(size,2) and b['z'].dtype==np.float32
        if not ok: bad+=1; print('C03 padded', N,B,buckets)
print('C03 cases', n, 'bad', bad)

# C04 with real rng
bad=0;n=0
def count(N,B,E,S,drop):
    if E is not None:
        c = (N*E)//B if drop else -(-(N*E)//B)
        if S is not None: c=min(c,S)
        return c
    return S
for N in range(1,9):
  ds = cds.ClientDataset({'x': np.arange(N, dtype=np.int32)})
  for B in range(1,11):
    for E in (None,1,2,3):
      for S in (None,0,1,2,5,9):
        for drop in (False,True):
          for skip in (False,True):
            for seed in (0,1):
              it = ds.shuffle_repeat_batch(batch_size=B,num_epochs=E,num_steps=S,drop_remainder=drop,seed=seed,skip_shuffle=skip)
              if E is None and S is None:
                  bs = list(itertools.islice(it, 12))
              else:
                  bs = list(it)
                  if len(bs)!=count(N,B,E,S,drop): bad+=1; print('C04 count',N,B,E,S,drop,len(bs))
              n+=1
              st = np.concatenate([b['x'] for b in bs]) if bs else np.zeros(0,int)
              if any(len(b['x'])!=B for b in bs): bad+=1; print('C04 size')
              for w in range(len(st)//N):
                  if sorted(st[w*N:(w+1)*N])!=list(range(N)): bad+=1; print('C04 window',N,B,E,S,drop,skip,seed); break
              if skip and not np.array_equal(st, np.arange(len(st))%N): bad+=1; print('C04 skip')
              bs2=list(itertools.islice(iter(it), len(bs)))
              if any(not np.array_equal(a['x'],b['x']) for a,b in zip(bs,bs2)): bad+=1; print('C04 repeat')
print('C04 cases', n, 'bad', bad)

# C15 padded_batch_client_datasets
bad=0;n=0
sizes=[0,1,2,3,4,5,7]
for L in range(0,4):
  for seq in itertools.product(sizes, repeat=L):
    off=0; dss=[]
    for s in seq:
        dss.append(cds.ClientDataset({'x': np.arange(off,off+s,dtype=np.int32)})); off+=s
    for B in (1,2,3,4):
      for buckets in (1,2,3):
        bs=list(cds.padded_batch_client_datasets(iter(dss), batch_size=B, num_batch_size_buckets=buckets)); n+=1
        tot=off
        real=np.concatenate([b['x'][b[cds.EXAMPLE_MASK_KEY]] for b in bs]) if bs else np.zeros(0,int)
        ok = np.array_equal(real, np.arange(tot))
        for i,b in enumerate(bs):
            m=b[cds.EXAMPLE_MASK_KEY]; r=int(m.sum())
            ok &= bool(m[:r].all()) and not b['x'][r:].any()
            if i<len(bs)-1: ok &= (len(m)==B and r==B)
            else:
                if r==0: ok &= (tot==0)
                else: ok &= len(m)==(B if r==B else ref_final(r,B,buckets))
        if not ok: bad+=1; print('C15 pb', seq,B,buckets,[ (len(b['x']), int(b[cds.EXAMPLE_MASK_KEY].sum())) for b in bs])
print('C15 cases', n, 'bad', bad)

import numpy as np, jax, jax.numpy as jnp, traceback, tempfile, os
import fedjax
from fedjax.algorithms import apfl, agnostic_fed_avg, fed_avg
from fedjax.core import client_datasets as cds

def t(name, f):
    try:
        print(name, '->', f())
    except Exception as e:
        traceback.print_exc()
        print(name, 'EXC', type(e).__name__, str(e)[:300])

def loss(params, batch, rng):
    return jnp.square(batch['x'] @ params['w'] - batch['y'])
grad_fn = fedjax.grad(loss)
def mk(n, seed, dom=None):
    r = np.random.RandomState(seed)
    d = {'x': r.randn(n,2).astype(np.float32), 'y': r.randn(n).astype(np.float32)}
    if dom is not None: d['domain_id'] = np.array(dom, dtype=np.int32)
    return cds.ClientDataset(d)
hp = cds.ShuffleRepeatBatchHParams(batch_size=2, num_epochs=1, seed=0)
params = {'w': jnp.array([0.5,-0.5])}
keys = jax.random.split(jax.random.PRNGKey(0), 3)

def run_agn(ws):
    alg = agnostic_fed_avg.agnostic_federated_averaging(loss, fedjax.optimizers.sgd(0.1), fedjax.optimizers.sgd(1.0), hp, cds.PaddedBatchHParams(batch_size=2), jnp.array([0.5,0.5]), 0.1, domain_window_size=ws)
    st = alg.init(params)
    out=[]
    rounds = [
      [(b'a', mk(3,1,[0,0,0]), keys[0]), (b'b', mk(2,2,[0,0]), keys[1])],   # domain 1 gets nothing
      [(b'a', mk(3,1,[0,1,0]), keys[0]), (b'b', mk(2,2,[0,0]), keys[1])],
      [(b'a', mk(3,1,[0,1,0]), keys[0]), (b'b', mk(2,2,[1,0]), keys[1])],
    ]
    for cl in rounds:
        st, _ = alg.apply(st, cl)
        out.append((np.asarray(st.params['w']), np.asarray(st.domain_weights), [np.asarray(w) for w in st.domain_window]))
    return out
for ws in (1,2):
    t(f'agnostic ws={ws}', lambda: run_agn(ws))

# APFL with patched clip
import functools
orig_clip = jnp.clip
def clip(x, a_min=None, a_max=None, **kw):
    return orig_clip(x, a_min, a_max)
apfl.jnp.clip = clip
def run_apfl():
    alg = apfl.adaptive_personalized_federated_learning(grad_fn, fedjax.optimizers.sgd(0.1), fedjax.optimizers.sgd(1.0), hp, 0.5)
    st = alg.init(params)
    clients = [(b'a', mk(3,1), keys[0]), (b'b', mk(2,2), keys[1])]
    st1, d = alg.apply(st, clients)
    print('input client_states after apply:', list(st.client_states))
    st1b, d = alg.apply(st, clients)
    print(st1.client_states[b'a'], st1b.client_states[b'a'])
    return st1.params, st1b.params
t('apfl', run_apfl)
apfl.jnp.clip = orig_clip

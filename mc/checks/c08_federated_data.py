"""C08 - all federated-dataset implementations expose the same mapping.

E-graph: BFS over view-operation histories (slice / subset / preprocess_client / preprocess_batch)
executed on the real implementations (in-memory, SQLite, Subset over each) in lock-step with a dict
reference model; every access path is observed in every state.
"""
import itertools
import os
import shutil
import tempfile

import numpy as np

from mc import core, graph
from mc.core import require, Violation

PROPERTY = 'C08'
LEVEL = 'model_checking'

U = [b'a', b'a\x00', b'ab', b'b', b'b\x00\x00']
SIZES = {b'a': 2, b'a\x00': 0, b'ab': 3, b'b': 1, b'b\x00\x00': 2}
OUTSIDE = b'zz'
# 'S_dup' names clients twice (two overlapping groups concatenated): a subset is a SET of clients
SUBSETS = {'S_ab': (b'a', b'b'), 'S_mid': (b'ab',), 'S_all': tuple(U), 'S_z': (b'a\x00', b'b\x00\x00', b'b'),
           'S_dup': (b'b', b'a', b'ab', b'a', b'b')}


def make_table(seed=0):
  table, off = {}, 1 + seed % 5
  for cid in U:
    n = SIZES[cid]
    x = np.arange(off, off + n, dtype=np.int32)
    # 'm': a 2-D feature in Fortran (column-major) memory order, as np.asfortranarray / a transpose / pandas hand out
    table[cid] = {'x': x, 't': np.zeros((n,), dtype=np.int32), 'm': np.asfortranarray(np.stack([x, x * 2 + 1], axis=1))}
    off += n
  return table


def _tag(d):
  def f(ex):
    return {**ex, 't': ex['t'] * 10 + d}
  return f


def _tag_inplace(d):
  """A batch preprocessing fn that modifies the dict it is given (the library documents that it guards against these)."""
  def f(ex):
    ex['t'] = ex['t'] * 10 + d
    return ex
  return f


def _ctag_inplace(cid, ex):
  """A client preprocessing fn that modifies the dict it is given and returns that very dict."""
  ex['t'] = ex['t'] * 10 + 2
  return ex


CF = {1: lambda cid, ex: {**ex, 't': ex['t'] * 10 + 1}, 2: _ctag_inplace}
BF = {3: _tag(3), 4: _tag_inplace(4)}


class Ref:
  """Reference view: a dict, bounds, an optional id set and two tag lists."""

  def __init__(self, table, lo=None, hi=None, subset=None, ctags=(), btags=()):
    self.table, self.lo, self.hi, self.subset, self.ctags, self.btags = table, lo, hi, subset, ctags, btags

  def ids(self):
    out = []
    for cid in sorted(self.table):
      if self.lo is not None and cid < self.lo:
        continue
      if self.hi is not None and not cid < self.hi:
        continue
      if self.subset is not None and cid not in self.subset:
        continue
      out.append(cid)
    return out

  def apply(self, op):
    """Returns a new Ref, or the exception class the operation must raise."""
    if op[0] == 'slice':
      lo, hi = op[1], op[2]
      nlo = self.lo if lo is None else (lo if self.lo is None else max(lo, self.lo))
      nhi = self.hi if hi is None else (hi if self.hi is None else min(hi, self.hi))
      return Ref(self.table, nlo, nhi, self.subset, self.ctags, self.btags)
    if op[0] == 'subset':
      s = set(SUBSETS[op[1]])
      if not s <= set(self.ids()):
        return ValueError
      return Ref(self.table, self.lo, self.hi, s if self.subset is None else (s & self.subset), self.ctags, self.btags)
    if op[0] == 'pc':
      return Ref(self.table, self.lo, self.hi, self.subset, self.ctags + (op[1],), self.btags)
    if op[0] == 'pb':
      return Ref(self.table, self.lo, self.hi, self.subset, self.ctags, self.btags + (op[1],))
    raise KeyError(op)

  def trace(self, tags):
    t = 0
    for d in tags:
      t = t * 10 + d
    return t

  def key(self):
    return (self.lo, self.hi, None if self.subset is None else tuple(sorted(self.subset)), self.ctags, self.btags)


def apply_impl(fd, op):
  from fedjax.core import federated_data as fdm
  if op[0] == 'slice':
    return fd.slice(op[1], op[2])
  if op[0] == 'subset':
    # the id collection is given as a tuple, a generator or a list iterator depending on the subset (any iterable is legal)
    ids = SUBSETS[op[1]]
    how = {'S_mid': lambda x: (c for c in x), 'S_all': lambda x: iter(list(x)), 'S_dup': lambda x: (c for c in x)}.get(op[1], tuple)
    return fdm.SubsetFederatedData(fd, how(ids))
  if op[0] == 'pc':
    return fd.preprocess_client(CF[op[1]])
  if op[0] == 'pb':
    return fd.preprocess_batch(BF[op[1]])
  raise KeyError(op)


def build_root(root, table, tmp):
  import fedjax
  from fedjax.core import sqlite_federated_data as sq, federated_data as fdm
  if root in ('mem', 'sub_mem'):
    fd = fedjax.InMemoryFederatedData({cid: table[cid] for cid in [U[3], U[0], U[4], U[2], U[1]]})
  else:
    path = os.path.join(tmp, 'fd.sqlite')
    if not os.path.exists(path):
      with sq.SQLiteFederatedDataBuilder(path) as b:
        b.add_many([(cid, table[cid]) for cid in [U[3], U[0], U[4], U[2], U[1]]])
    # another database (other clients, other count) is opened and queried first in the same process: nothing learnt from
    # it may be remembered for this one
    other = os.path.join(tmp, 'other.sqlite')
    if not os.path.exists(other):
      with sq.SQLiteFederatedDataBuilder(other) as b:
        b.add_many([(b'o%d' % k, {'x': np.arange(k + 1, dtype=np.int32), 't': np.zeros(k + 1, np.int32),
                                  'm': np.zeros((k + 1, 2), np.int32)}) for k in range(7)])
    ofd = sq.SQLiteFederatedData.new(other)
    ofd.num_clients(), list(ofd.client_ids()), list(ofd.client_sizes()), ofd.slice(b'o1', b'o4').num_clients()
    ofd.slice(None, b'b').num_clients(), ofd.slice(b'a', None).num_clients()
    ofd._connection.close()
    fd = sq.SQLiteFederatedData.new(path)
  if root.startswith('sub_'):
    fd = fdm.SubsetFederatedData(fd, list(U))
  return fd


def _ex(ds, what, nc):
  """(x values, client-level trace, batch-level traces via a padded batch view)."""
  raw = ds.raw_examples
  allx = ds.all_examples()
  bt = []
  for b in ds.padded_batch(batch_size=2):
    m = np.asarray(b['__mask__'])
    bt += np.asarray(b['t'])[m].tolist()
  # a plain batch that holds the whole client (one slice covering every row), then the padded view once more
  whole = [v for b in ds.batch(batch_size=8) for v in np.asarray(b['t']).tolist()]
  require(whole == bt, what + ': batch(batch_size=8) and padded_batch(batch_size=2) disagree on the preprocessed examples', bt, whole,
          case=nc)
  again = [v for b in ds.padded_batch(batch_size=2) for v in np.asarray(b['t'])[np.asarray(b['__mask__'])].tolist()]
  require(again == bt, what + ': a second pass over the client gives other preprocessed examples', bt, again, case=nc)
  return (np.asarray(raw['x']).tolist(), np.asarray(raw['t']).tolist(), np.asarray(allx['t']).tolist(), bt,
          np.asarray(allx['m']).tolist())


def observe(fd, ref, what, nc, light=False):
  """Compares every access path of view `fd` with reference view `ref`."""
  ids = ref.ids()
  table = ref.table
  ct, bt = ref.trace(ref.ctags), ref.trace(ref.ctags + ref.btags)

  def expect_examples(cid):
    n = len(table[cid]['x'])
    return (table[cid]['x'].tolist(), [ct] * n, [bt] * n, [bt] * n, [[int(v), int(v) * 2 + 1] for v in table[cid]['x']])
  require(fd.num_clients() == len(ids), what + ': num_clients', len(ids), fd.num_clients(), case=nc)
  got_ids = list(fd.client_ids())
  require(sorted(got_ids) == ids and len(got_ids) == len(ids), what + ': client_ids', [i.hex() for i in ids],
          [bytes(i).hex() for i in got_ids], case=nc)
  require(list(fd.client_ids()) == got_ids, what + ': client_ids order differs between two calls', case=nc)
  sizes = list(fd.client_sizes())
  require(len(sizes) == len(ids) and dict(sizes) == {c: len(table[c]['x']) for c in ids}, what + ': client_sizes',
          {c.hex(): len(table[c]['x']) for c in ids}, {bytes(c).hex(): s for c, s in sizes}, case=nc)
  if light:
    return
  cl = [(cid, _ex(ds, what, nc)) for cid, ds in fd.clients()]
  require([c for c, _ in cl] == [c for c, _ in fd.clients()], what + ': clients() order is not deterministic', case=nc)
  require(sorted(c for c, _ in cl) == ids and len(cl) == len(ids), what + ': clients() ids', [i.hex() for i in ids],
          [bytes(c).hex() for c, _ in cl], case=nc)
  for cid, ex in cl:
    require(ex == expect_examples(cid), what + ': clients() examples/preprocessing of %r' % cid,
            expect_examples(cid), ex, case=nc)
  for cid in U + [OUTSIDE]:
    if cid in ids:
      require(fd.client_size(cid) == len(table[cid]['x']), what + ': client_size(%r)' % cid, case=nc)
      require(_ex(fd.get_client(cid), what, nc) == expect_examples(cid), what + ': get_client(%r)' % cid, case=nc)
    else:
      for nm, f in (('client_size', fd.client_size), ('get_client', fd.get_client)):
        try:
          r = f(cid)
        except KeyError:
          continue
        raise Violation(what + ': %s(%r) outside the view did not raise KeyError' % (nm, cid), 'KeyError', repr(r),
                        case=nc)
  for sel in itertools.chain(itertools.permutations(U + [OUTSIDE], 1), itertools.permutations(U + [OUTSIDE], 2)):
    sel = list(sel)
    if all(c in ids for c in sel):
      got = [(c, _ex(ds, what, nc)) for c, ds in fd.get_clients(sel)]
      require([c for c, _ in got] == sel, what + ': get_clients does not return in request order',
              [c.hex() for c in sel], [bytes(c).hex() for c, _ in got], case=nc)
      for c, ex in got:
        require(ex == expect_examples(c), what + ': get_clients examples of %r' % c, case=nc)
    else:
      try:
        got = list(fd.get_clients(sel))
      except KeyError:
        continue
      raise Violation(what + ': get_clients(%r) with an id outside the view did not raise KeyError' % sel, 'KeyError',
                      [bytes(c).hex() for c, _ in got], case=nc)
  if len(ids) >= 2:
    # interleaved access on ONE view object: two live iterators must not disturb each other
    pairs = list(zip(fd.clients(), fd.clients()))
    require(len(pairs) == len(ids) and all(a[0] == b[0] for a, b in pairs) and sorted(a[0] for a, _ in pairs) == ids,
            what + ': two interleaved clients() iterators on the same view disagree / are incomplete',
            [i.hex() for i in ids], [[bytes(a[0]).hex(), bytes(b[0]).hex()] for a, b in pairs], case=nc)
    it = fd.shuffled_clients(buffer_size=1, seed=3)
    head = [next(it)[0] for _ in range(1)]
    middle = [c for c, _ in fd.clients()]
    rest = [next(it)[0] for _ in range(len(ids) - 1)]
    require(sorted(head + rest) == ids, what + ': a shuffled pass that was suspended while clients() ran is not a permutation',
            [i.hex() for i in ids], [bytes(c).hex() for c in head + rest], case=nc)
    require(sorted(middle) == ids, what + ': clients() run while a shuffled iterator is suspended is incomplete', case=nc)
    outer = 0
    for _ in fd.clients():
      outer += 1
      for _ in fd.clients():
        pass
    require(outer == len(ids), what + ': a nested loop over clients() ended the outer loop early', len(ids), outer, case=nc)
  if ids:
    n = len(ids)
    for buf, seed in ((1, 0), (2, 1), (10, 2)):
      it = fd.shuffled_clients(buffer_size=buf, seed=seed)
      got = [(c, _ex(ds, what, nc)) for c, ds in itertools.islice(it, 2 * n)]
      for p in range(2):
        require(sorted(c for c, _ in got[p * n:(p + 1) * n]) == ids, what + ': pass %d of shuffled_clients(buffer=%d) '
                'is not a permutation of the view' % (p, buf), [i.hex() for i in ids],
                [bytes(c).hex() for c, _ in got[p * n:(p + 1) * n]], case=nc)
      for c, ex in got:
        require(ex == expect_examples(c), what + ': shuffled_clients examples of %r' % c, case=nc)
    # using the view (shuffled passes above, with buffers larger than the view) must not change what it exposes
    require(list(fd.client_ids()) == got_ids, what + ': client_ids() order changed after shuffled passes over the same view',
            [bytes(i).hex() for i in got_ids], [bytes(i).hex() for i in fd.client_ids()], case=nc)
    require([c for c, _ in fd.clients()] == [c for c, _ in cl], what + ': clients() order changed after shuffled passes over '
            'the same view', [bytes(c).hex() for c, _ in cl], [bytes(c).hex() for c, _ in fd.clients()], case=nc)
    require(list(fd.client_sizes()) == sizes, what + ': client_sizes() changed after shuffled passes over the same view', case=nc)
    # two live shuffled iterators over one view (two samplers sharing a dataset), interleaved step by step
    for buf in (1, n + 3):
      ia, ib = fd.shuffled_clients(buffer_size=buf, seed=5), fd.shuffled_clients(buffer_size=buf, seed=6)
      pa, pb = [], []
      for _ in range(n):
        pa.append(next(ia)[0])
        pb.append(next(ib)[0])
      require(sorted(pa) == ids and sorted(pb) == ids, what + ': two interleaved shuffled_clients(buffer=%d) passes over one '
              'view are not both permutations of it' % buf, [i.hex() for i in ids],
              [[bytes(c).hex() for c in pa], [bytes(c).hex() for c in pb]], case=nc)
      alone = [c for c, _ in itertools.islice(fd.shuffled_clients(buffer_size=buf, seed=5), n)]
      require(pa == alone, what + ': a seeded shuffled pass interleaved with another one differs from the same pass alone',
              [bytes(c).hex() for c in alone], [bytes(c).hex() for c in pa], case=nc)
    # a bulk request may name a client more than once (sampling with replacement, repeated participation)
    rep = [ids[0], ids[-1], ids[0]] if n > 1 else [ids[0], ids[0]]
    got = [(c, _ex(ds, what, nc)) for c, ds in fd.get_clients(rep)]
    require([c for c, _ in got] == rep and all(ex == expect_examples(c) for c, ex in got), what + ': get_clients with a repeated id '
            'does not return every requested occurrence in request order', [c.hex() for c in rep], [bytes(c).hex() for c, _ in got],
            case=nc)
    # bulk get takes any iterable of ids, also one-pass ones
    sel = [ids[-1], ids[0]] if n > 1 else [ids[0]]
    for nm, req in (('iter(list)', iter(list(sel))), ('generator', (c for c in sel)), ('map', map(bytes, sel)),
                    ('tuple', tuple(sel)), ('dict keys', dict.fromkeys(sel).keys())):
      got = [(c, _ex(ds, what, nc)) for c, ds in fd.get_clients(req)]
      require([c for c, _ in got] == list(dict.fromkeys(sel)) and all(ex == expect_examples(c) for c, ex in got),
              what + ': get_clients(%s) does not return the requested clients in request order' % nm,
              [c.hex() for c in sel], [bytes(c).hex() for c, _ in got], case=nc)


def ops_alphabet(th):
  bounds = [None, b'', OUTSIDE] + U  # b'' is a legal (smallest) bound, OUTSIDE lies above every id
  ops = [('slice', s, e) for s in bounds for e in bounds if not (s is None and e is None)]
  ops += [('subset', k) for k in SUBSETS]
  ops += [('pc', 1), ('pc', 2), ('pb', 3), ('pb', 4)]
  return ops


def enc_op(op):
  return [o.hex() if isinstance(o, bytes) else o for o in op]


def dec_op(op):
  if op[0] == 'slice':
    return ('slice',) + tuple(None if o is None else bytes.fromhex(o) for o in op[1:])
  return tuple(op)


def explore(case):
  root, depth = case['root'], case['depth']
  table = make_table(case.get('seed', 0))
  tmp = tempfile.mkdtemp(prefix='c08_')
  conns = []
  try:
    if 'ops' in case:  # replay of one history
      ops = [dec_op(o) for o in case['ops']]
      fd, ref = build_root(root, table, tmp), Ref(table)
      observe(fd, ref, 'root', case)
      for i, op in enumerate(ops):
        r2 = ref.apply(op)
        if r2 is ValueError:
          try:
            apply_impl(fd, op)
          except ValueError:
            return {'evals': 1}
          raise Violation('subset with ids outside the view was not rejected with ValueError', case=case)
        child = apply_impl(fd, op)
        observe(fd, ref, 'parent after deriving a child', case)
        fd, ref = child, r2
        observe(fd, ref, 'view after %d ops' % (i + 1), case)
      return {'evals': 1}

    alphabet = ops_alphabet(case.get('thorough'))
    refs = {}

    def build(hist):
      fd, ref = build_root(root, table, tmp), Ref(table)
      for op in hist:
        fd, ref = apply_impl(fd, op), ref.apply(op)
      refs[hist] = ref
      return fd

    def canon(hist, fd):
      return refs[hist].key()

    def nc(hist):
      return dict(case, ops=[enc_op(o) for o in hist])

    def check_state(hist, fd):
      observe(fd, refs[hist], 'view', nc(hist))

    def enabled(hist, fd):
      n_pre = sum(1 for o in hist if o[0] in ('pc', 'pb'))
      for op in alphabet:
        if op[0] in ('pc', 'pb') and n_pre >= 2 and not case.get('thorough'):
          continue
        yield op

    def check_transition(hist, op, parent):
      ref = refs[hist]
      r2 = ref.apply(op)
      nxt = hist + (op,)
      if r2 is ValueError:
        try:
          apply_impl(parent, op)
        except ValueError:
          return False
        raise Violation('subset with ids outside the view was not rejected with ValueError', case=nc(nxt))
      try:
        child = apply_impl(parent, op)
      except Exception as e:  # pylint: disable=broad-except
        raise Violation('deriving a view raised %s: %s' % (type(e).__name__, e), 'a view exposing %d clients'
                        % len(r2.ids()), type(e).__name__, case=nc(nxt))
      refs[nxt] = r2
      observe(parent, ref, 'parent after deriving a child', nc(nxt), light=True)
      # the child is compared with the reference on EVERY transition (ids, sizes), also when its canonical key was
      # already reached by another history - merging is only used to bound the expensive full observation
      observe(child, r2, 'derived view', nc(nxt), light=True)
      return child
    st = graph.bfs(build, enabled, canon, check_state, check_transition, depth)
  finally:
    shutil.rmtree(tmp, ignore_errors=True)
  empties = sum(1 for h, r in refs.items() if not r.ids())
  return {'evals': st['states'], 'keys': [[root, repr(r.key())] for r in refs.values() if len(r.ids()) < 5 or r.ctags or r.btags][:20000],
          'states': st['states'], 'transitions': st['transitions'], 'traces': st['states'],
          'nontrivial': True, 'outcome': [root, st['states'], st['transitions']],
          'stats': {'merged_histories': st['merged'], 'histories_reaching_empty_views': empties},
          'sample': {'root': root, 'states': st['states'], 'transitions': st['transitions'], 'max_depth': st['max_depth']}}


def order_trace(arg):
  """Everything order-related a view exposes, for a list of op histories (runs in the parent and in child interpreters)."""
  table = make_table(arg.get('seed', 0))
  tmp = tempfile.mkdtemp(prefix='c08o_')
  out = []
  try:
    for hist in arg['histories']:
      fd = build_root(arg['root'], table, tmp)
      for op in hist:
        fd = apply_impl(fd, dec_op(op))
      n = fd.num_clients()
      rec = {'ids': [bytes(c).hex() for c in fd.client_ids()], 'clients': [bytes(c).hex() for c, _ in fd.clients()],
             'sizes': [[bytes(c).hex(), int(k)] for c, k in fd.client_sizes()]}
      for buf in (1, 2, n + 3):
        for seed in (0, 5):
          rec['shuffled_%d_%d' % (buf, seed)] = [bytes(c).hex() for c, _ in
                                                 itertools.islice(fd.shuffled_clients(buffer_size=buf, seed=seed), 2 * n)]
      out.append(rec)
  finally:
    shutil.rmtree(tmp, ignore_errors=True)
  return out


def other_process(case):
  """'Iteration order is deterministic': the order of ids / clients / seeded shuffled passes is the same in another
  interpreter process whose str/bytes hash salt differs (PYTHONHASHSEED is an environment answer; every listed value runs)."""
  from mc import child
  arg = {'root': case['root'], 'histories': case['histories'], 'seed': case.get('seed', 0)}
  here = order_trace(arg)
  evals = 0
  for hs in case['hashseeds']:
    there = child.call('mc.checks.c08_federated_data', 'order_trace', arg, hs)
    for hist, a, b in zip(case['histories'], here, there):
      for k in a:
        require(a[k] == b.get(k), '%s of the view differs between two interpreter processes (PYTHONHASHSEED=%s)' % (k, hs),
                a[k], b.get(k), case=dict(case, histories=[hist], hashseeds=[hs]))
      evals += 1
  return {'evals': evals, 'states': evals, 'transitions': evals, 'traces': evals, 'nontrivial': True,
          'outcome': [case['root'], here[0]['ids'][:3]]}


SUBS = {'explore': explore, 'other_process': other_process}
TIMEOUTS = {'explore': 3000, 'other_process': 1800}


def plan(ctx):
  th = ctx.tier == 'thorough'
  depth = 5 if th else 3
  ctx.rule = ('BFS to depth %d over {slice(start,stop) with start,stop in {None} u U (35), subset (4 id sets, one outside '
              'most views), preprocess_client x2, preprocess_batch x2} from 4 roots (in-memory, SQLite, Subset over each); '
              'canonical key = (effective start, stop, id set, client tags, batch tags) which is exactly the state each '
              'implementation stores; every state observed through all access paths' % depth)
  ctx.assumptions += ['universe of 5 ids with trailing zero bytes and prefixes, sizes 0..3, inserted in non-sorted order',
                      'preprocessors preserve the number of examples']
  ctx.pmap('explore', [{'root': r, 'depth': depth, 'seed': ctx.seed, 'thorough': th}
                       for r in ('mem', 'sql', 'sub_mem', 'sub_sql')], chunk=1)
  # long preprocessor chains (3..5 registrations on one lineage, every order of the distinguishable functions), replayed as
  # single histories; slices / subsets interleaved
  import itertools as _it
  chains = [[('pc', a) for a in seq] for n in (3, 4) for seq in _it.product((1, 2), repeat=n)]
  chains += [[('pb', a) for a in seq] for seq in _it.product((3, 4), repeat=3)]
  chains += [[('pc', 1), ('pb', 3), ('pc', 2), ('pb', 4), ('pc', 1)], [('pc', 2), ('slice', b'a\x00', None), ('pc', 1), ('subset', 'S_z'), ('pc', 1), ('pb', 4)],
             [('pb', 4), ('pc', 1), ('pc', 2), ('slice', None, OUTSIDE), ('pc', 2), ('pb', 3), ('pb', 3)]]
  ctx.pmap('explore', [{'root': r, 'depth': len(ch), 'seed': ctx.seed, 'ops': [enc_op(o) for o in ch]}
                       for r in ('mem', 'sql', 'sub_mem', 'sub_sql') for ch in chains], chunk=16)
  hists = [[], [enc_op(('slice', b'a\x00', None))], [enc_op(('subset', 'S_z'))], [enc_op(('pc', 1)), enc_op(('slice', None, b'b\x00\x00'))],
           [enc_op(('subset', 'S_all')), enc_op(('pb', 3))]]
  ctx.pmap('other_process', [{'root': r, 'histories': hists, 'hashseeds': [hs], 'seed': ctx.seed}
                             for r in ('mem', 'sql', 'sub_mem', 'sub_sql') for hs in ((1, 2, 3, 12345) if th else (1, 2))], chunk=1)

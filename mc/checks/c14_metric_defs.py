"""C14 - every built-in metric equals its definition on its whole domain.

E-enum: complete score grids {-1,0,1}^(LxC) (all tie patterns) + extreme rows, all targets, all
constructor variants; each grid is evaluated through jax.vmap(metric.evaluate_example) and compared
row by row with the docstring-derived reference (mc/ref/metrics_ref.py).
"""
import itertools
import json

import numpy as np

from mc import core
from mc.core import require, Violation
from mc.ref import metrics_ref as mr

PROPERTY = 'C14'
LEVEL = 'exploration'
INF = float('inf')


def cls_scores(c, with_inf):
  rows = [list(r) for r in itertools.product((-1.0, 0.0, 1.0), repeat=c)]
  big = 1e30
  rows += [[big] + [-big] * (c - 1), [-big] * c, [big] * c, [-big] * (c - 1) + [big], [0.5 / 2 ** i for i in range(c)]]
  if with_inf:
    rows += [[-INF] + [0.0] * (c - 1), [0.0] * (c - 1) + [-INF], [-INF] * c, [INF] + [0.0] * (c - 1),
             [0.0] * (c - 1) + [INF], [INF] * c, [-INF] * (c - 1) + [1.0]]
  return rows


def _eval_rows(metric, ys, preds, domains=None):
  import jax
  import jax.numpy as jnp
  ex = {'y': jnp.asarray(np.asarray(ys, np.int32))}
  if domains is not None:
    ex['domain_id'] = jnp.asarray(np.asarray(domains, np.int32))
  st = jax.vmap(metric.evaluate_example)(ex, jnp.asarray(np.asarray(preds, np.float32)))
  return mr.stat_arrays(st)


def _eval_one(metric, y, pred, domain=None):
  import jax.numpy as jnp
  ex = {'y': jnp.asarray(np.asarray(y, np.int32))}
  if domain is not None:
    ex['domain_id'] = jnp.asarray(np.int32(domain))
  return mr.stat_arrays(metric.evaluate_example(ex, jnp.asarray(np.asarray(pred, np.float32))))


def _cmp(spec, got, want, y, pred, domain, what):
  row = {'spec': spec, 'row': {'y': np.asarray(y).tolist(), 'pred': core.jsonable(np.asarray(pred, np.float64).tolist()),
                              'domain': domain}}
  require(got[0] == want[0], 'statistic kind differs', want[0], got[0], case=row)
  names = ['accum', 'weight']
  for nm, g, w in zip(names, got[1:], want[1:]):
    g = np.asarray(g, np.float64)
    w = np.asarray(w, np.float64)
    require(g.shape == w.shape, '%s: %s shape differs' % (what, nm), list(w.shape), list(g.shape), case=row)
    ok = np.all(np.isfinite(g)) and np.all(np.abs(g - w) <= 1e-5 + 1e-5 * np.abs(w))
    require(bool(ok), '%s: %s differs from the reference definition' % (what, nm), w.tolist(), g.tolist(), case=row)
  # result() agrees with accum/weight semantics
  return row


def _decode_pred(p):
  def f(v):
    if isinstance(v, list):
      return [f(x) for x in v]
    return {'inf': INF, '-inf': -INF, 'nan': float('nan')}.get(v, v)
  return f(p)


def grid(case):
  """One metric object on one complete grid (or a single row when case['row'] is present)."""
  spec = case['spec']
  metric = mr.build(spec)
  if 'row' in case:
    r = case['row']
    pred = _decode_pred(r['pred'])
    got = _eval_one(metric, r['y'], pred, r.get('domain'))
    ex = {'y': np.asarray(r['y'])}
    if r.get('domain') is not None:
      ex['domain_id'] = r['domain']
    _cmp(spec, got, mr.ref_stat(spec, ex, pred), r['y'], pred, r.get('domain'), 'single example')
    _result_check(metric, spec, ex, pred)
    return {'evals': 1}
  fam = case['family']
  c = case['C']
  base_name = spec['base']['name'] if spec['name'] == 'PerDomainMetric' else spec['name']
  if fam == 'cls':
    scores = cls_scores(c, with_inf=base_name != 'CrossEntropyLoss')
    rows = [(t, s) for s in scores for t in range(c)]
  else:
    l = case['L']
    mats = [np.array(m, np.float64).reshape(l, c).tolist() for m in itertools.product((-1.0, 0.0, 1.0), repeat=l * c)]
    if case.get('stride', 1) > 1:
      mats = mats[::case['stride']]
    rows = [(list(t), m) for m in mats for t in itertools.product(range(c), repeat=l)]
  nd = spec.get('num_domains')
  if nd:
    rows = [(t, s, d) for (t, s) in rows for d in range(nd)]
  ys = [r[0] for r in rows]
  preds = [r[1] for r in rows]
  doms = [r[2] for r in rows] if nd else None
  got = _eval_rows(metric, ys, preds, doms)
  outcomes = set()
  for i, r in enumerate(rows):
    ex = {'y': np.asarray(r[0])}
    if nd:
      ex['domain_id'] = r[2]
    want = mr.ref_stat(spec, ex, r[1])
    g = (got[0],) + tuple(np.asarray(a)[i] for a in got[1:])
    _cmp(spec, g, want, r[0], r[1], r[2] if nd else None, 'row %d of the grid' % i)
    outcomes.add(core.digest([np.asarray(a).round(4).tolist() for a in want[1:]]))
  # a few rows through the plain (non-vmapped) call, incl. result()
  for i in sorted({0, len(rows) // 3, len(rows) // 2, len(rows) - 1}):
    r = rows[i]
    ex = {'y': np.asarray(r[0])}
    if nd:
      ex['domain_id'] = r[2]
    g1 = _eval_one(metric, r[0], r[1], r[2] if nd else None)
    _cmp(spec, g1, mr.ref_stat(spec, ex, r[1]), r[0], r[1], r[2] if nd else None, 'plain call')
    _result_check(metric, spec, ex, r[1])
  return {'evals': len(rows) + 4, 'outcomes': sorted(outcomes), 'nontrivial': True,
          'keys': [[core.digest(spec), fam, c, case.get('L')]]}


def _result_check(metric, spec, ex, pred):
  import jax.numpy as jnp
  e = {k: jnp.asarray(np.asarray(v, np.int32)) for k, v in ex.items()}
  st = metric.evaluate_example(e, jnp.asarray(np.asarray(pred, np.float32)))
  want = mr.ref_result(mr.ref_stat(spec, ex, pred))
  got = np.asarray(st.result(), np.float64)
  require(got.shape == want.shape and bool(np.all(np.abs(got - want) <= 1e-5 + 1e-5 * np.abs(want))),
          'result() differs from the reference', want.tolist(), got.tolist(),
          case={'spec': spec, 'row': {'y': np.asarray(ex['y']).tolist(), 'pred': core.jsonable(np.asarray(pred).tolist()),
                                      'domain': ex.get('domain_id')}})
  z = metric.zero()
  zr = np.asarray(z.result(), np.float64)
  require(bool(np.all(zr == 0)), 'zero().result() is not 0', 0, zr.tolist())


def identities(case):
  """TopKAccuracy(1) == Accuracy; trace(confusion)/total == accuracy, on the complete grid."""
  c = case['C']
  scores = cls_scores(c, True)
  rows = [(t, s) for s in scores for t in range(c)]
  ys, preds = [r[0] for r in rows], [r[1] for r in rows]
  acc = _eval_rows(mr.build({'name': 'Accuracy'}), ys, preds)
  top1 = _eval_rows(mr.build({'name': 'TopKAccuracy', 'k': 1}), ys, preds)
  cm = _eval_rows(mr.build({'name': 'ConfusionMatrix', 'num_classes': c}), ys, preds)
  for i, r in enumerate(rows):
    row = {'C': c, 'row': i}
    require(float(acc[1][i]) == float(top1[1][i]), 'TopKAccuracy(k=1) != Accuracy', float(acc[1][i]),
            float(top1[1][i]), case=None)
    m = np.asarray(cm[1][i])
    require(m.sum() == 1 and m[r[0]].sum() == 1, 'confusion matrix does not hold exactly one count in the target row',
            None, m.tolist())
    require(float(np.trace(m)) == float(acc[1][i]), 'trace(confusion matrix) != accuracy', float(acc[1][i]),
            float(np.trace(m)))
  # single-example statistics merged DIRECTLY with each other (Stat.merge, no zero in front, no reduce): counts add up - also
  # when several examples fall into the same (target, predicted) cell - and trace / total stays the merged accuracy
  import jax.numpy as jnp
  cm_m, acc_m = mr.build({'name': 'ConfusionMatrix', 'num_classes': c}), mr.build({'name': 'Accuracy'})
  sel = rows[:: max(1, len(rows) // 12)][:12]
  singles = [(cm_m.evaluate_example({'y': jnp.asarray(np.int32(t))}, jnp.asarray(np.asarray(sc, np.float32))),
              acc_m.evaluate_example({'y': jnp.asarray(np.int32(t))}, jnp.asarray(np.asarray(sc, np.float32)))) for t, sc in sel]
  merges = 0
  for i in range(len(singles)):
    for j in range(len(singles)):
      for k3 in (None, i):
        idx = [i, j] + ([k3] if k3 is not None else [])
        cmst, acst = singles[idx[0]]
        for q in idx[1:]:
          cmst, acst = cmst.merge(singles[q][0]), acst.merge(singles[q][1])
        mat = np.asarray(cmst.result(), np.float64)
        want = np.zeros((c, c))
        for q in idx:
          want[sel[q][0], mr._argmax(sel[q][1])] += 1
        require(np.array_equal(mat, want), 'confusion matrices of single examples merged directly do not add up (one count per example)',
                want.tolist(), mat.tolist(), case={'C': c, 'rows': idx})
        require(abs(float(np.trace(mat)) / float(mat.sum()) - float(np.asarray(acst.result()))) <= 1e-6, 'trace / total of the merged '
                'confusion matrix is not the merged accuracy', float(np.asarray(acst.result())), float(np.trace(mat)) / float(mat.sum()),
                case={'C': c, 'rows': idx})
        merges += 1
  return {'evals': len(rows) * 3 + merges, 'nontrivial': True, 'outcome': [float(np.sum(acc[1]))]}


def dtypes(case):
  """Label and score dtypes other than int32 / float32: narrow label types (uint8 / int8 / int16 - EMNIST-62 and CIFAR-100
  labels fit them) with enough classes that `label * num_classes` leaves the type, numpy vs jax inputs, and integer
  scores whose magnitude exceeds the float32 integer range. Single examples and a masked batch."""
  import jax.numpy as jnp
  from fedjax.core import metrics
  c, ldt = case['C'], case['label_dtype']
  targets = sorted({0, 1, c // 2, c - 1} & set(range(min(c, np.iinfo(ldt).max + 1))))
  preds_idx = sorted({0, c // 3, c - 2, c - 1} & set(range(c)))
  specs = [{'name': 'ConfusionMatrix', 'num_classes': c}, {'name': 'Accuracy'}, {'name': 'TopKAccuracy', 'k': 2},
           {'name': 'CrossEntropyLoss'}]
  evals = 0
  for spec in specs:
    m = mr.build(spec)
    rows = []
    for t in targets:
      for pi in preds_idx:
        pred = np.linspace(-1.0, 1.0, c).astype(np.float32)
        pred[pi] = 3.0
        rows.append((t, pred))
        for as_jax in (True, False):
          y = np.asarray(t, ldt)
          got = mr.stat_arrays(m.evaluate_example({'y': jnp.asarray(y) if as_jax else y}, jnp.asarray(pred) if as_jax else pred))
          _cmp(spec, got, mr.ref_stat(spec, {'y': t}, pred), t, pred, None, 'label dtype %s (%s input)' % (ldt, 'jax' if as_jax else 'numpy'))
          evals += 1
    ys = np.asarray([r[0] for r in rows], ldt)
    ps = np.stack([r[1] for r in rows])
    mask = np.arange(len(rows)) % 4 != 3
    st = mr.stat_arrays(metrics.evaluate_batch(m, {'y': jnp.asarray(ys)}, jnp.asarray(ps), jnp.asarray(mask)))
    want = None
    for r, keep in zip(rows, mask):
      if keep:
        one = mr.ref_stat(spec, {'y': r[0]}, r[1])
        want = one if want is None else mr.ref_merge(want, one)
    _cmp(spec, st, want, ys.tolist(), [], None, 'evaluate_batch with %s labels' % ldt)
    evals += 1
  if case.get('int_scores'):
    # integer scores: distinct values stay distinct (no rounding through float32), top-1 == accuracy
    big = 2 ** 24
    for scores, t in (([big, big + 1, 3], 1), ([big + 1, big, 3], 0), ([-big - 1, -big, -big - 2], 1), ([5, 7, 7], 1), ([0, 0, 0], 0)):
      pred = np.asarray(scores, np.int32)
      for spec in ({'name': 'Accuracy'}, {'name': 'TopKAccuracy', 'k': 1}, {'name': 'TopKAccuracy', 'k': 2}):
        got = mr.stat_arrays(mr.build(spec).evaluate_example({'y': jnp.asarray(np.int32(t))}, jnp.asarray(pred)))
        _cmp(spec, got, mr.ref_stat(spec, {'y': t}, [int(v) for v in scores]), t, scores, None, 'int32 scores')
        evals += 1
  return {'evals': evals, 'nontrivial': True, 'outcome': [c, ldt]}


def ce_infinite(case):
  """Cross-entropy of an example whose TARGET class has probability 0 (a -inf logit on the true label, e.g. an
  out-of-vocabulary mask hitting it, or finite scores whose gap overflows float32) is +inf - the worst prediction must not
  score as a perfect one. (A -inf logit on a NON-target class is outside the domain: the library returns NaN there.)"""
  import jax.numpy as jnp
  ninf = -np.inf
  evals = 0
  cls_rows = [(0, [ninf, 0.0, 1.0]), (2, [0.5, 0.0, ninf]), (0, [-3e38, 3e38, 0.0]), (1, [0.0, 0.0, 0.0])]
  for t, pred in cls_rows:
    m = mr.build({'name': 'CrossEntropyLoss'})
    st = m.evaluate_example({'y': jnp.asarray(np.int32(t))}, jnp.asarray(np.asarray(pred, np.float32)))
    got = float(np.asarray(st.result()))
    want = float(-(np.asarray(pred, np.float64)[t] - np.log(np.sum(np.exp(np.asarray(pred, np.float64) - np.max(pred)))) - np.max(pred))) \
        if np.isfinite(pred[t]) and abs(pred[t]) < 1e38 else np.inf
    require((np.isinf(want) and got == np.inf) or (np.isfinite(want) and abs(got - want) <= 1e-5 * (1 + abs(want))),
            'CrossEntropyLoss of target %d under scores %r' % (t, pred), want, got, case={'row': [t, core.jsonable(pred)]})
    evals += 1
  seq_rows = [([1, 2], [[0.0, ninf, 1.0], [0.0, 1.0, 2.0]]), ([2, 1], [[0.0, 1.0, 2.0], [3e38, -3e38, 0.0]])]
  for y, pred in seq_rows:
    for spec in ({'name': 'SequenceTokenCrossEntropyLoss', 'masked_target_values': []},
                 {'name': 'SequenceTokenCrossEntropyLoss', 'masked_target_values': [], 'per_position': True},
                 {'name': 'SequenceCrossEntropyLoss', 'masked_target_values': []}):
      st = mr.build(spec).evaluate_example({'y': jnp.asarray(np.asarray(y, np.int32))}, jnp.asarray(np.asarray(pred, np.float32)))
      got = np.asarray(st.result(), np.float64)
      require(bool(np.any(got == np.inf)) and not bool(np.any(np.isnan(got))) and not bool(np.any(got == -np.inf)),
              '%s: a sequence with a probability-0 target token must have infinite loss' % spec['name'], 'inf', got.tolist(),
              case={'spec': spec, 'row': [y, core.jsonable(pred)]})
      evals += 1
  # a MASKED position whose scores give a non-finite cross entropy (a -inf logit on the pad label, scores whose gap overflows):
  # it has weight 0 and contributes exactly 0 - in the single-example statistic itself (accum and weight, evaluated op by op),
  # in a vmapped pair of examples where the other example has a real token at that position, and in the jitted batch path
  from fedjax.core import metrics as _metrics
  masked_rows = [([1, 0], [[0.0, 2.0, 1.0], [ninf, 0.0, 0.0]]), ([0, 2], [[ninf, ninf, 0.0], [0.0, 1.0, 2.0]]),
                 ([1, 0], [[0.5, 0.0, 1.0], [-3e38, 3e38, 0.0]]), ([0, 0], [[ninf, 0.0, 0.0], [-3e38, 3e38, 1.0]])]
  other = ([1, 2], [[1.0, 0.0, -1.0], [0.0, 0.5, 1.5]])
  for y, pred in masked_rows:
    for spec in ({'name': 'SequenceTokenCrossEntropyLoss', 'masked_target_values': [0]},
                 {'name': 'SequenceTokenCrossEntropyLoss', 'masked_target_values': [0], 'per_position': True},
                 {'name': 'SequenceCrossEntropyLoss', 'masked_target_values': [0]}):
      m = mr.build(spec)
      nc = {'spec': spec, 'row': [y, core.jsonable(pred)]}
      p64 = np.asarray(pred, np.float64)
      tok = []
      for t, row in zip(y, p64):
        if t == 0:
          tok.append(0.0)
        else:
          mx = np.max(row)
          tok.append(float(-(row[t] - mx - np.log(np.sum(np.exp(row - mx))))))
      wts = [0.0 if t == 0 else 1.0 for t in y]
      ex = {'y': jnp.asarray(np.asarray(y, np.int32))}
      st = m.evaluate_example(ex, jnp.asarray(np.asarray(pred, np.float32)))
      arrs = mr.stat_arrays(st)
      if spec.get('per_position'):
        want_acc, want_w = np.asarray(tok), np.asarray(wts)
      elif spec['name'] == 'SequenceCrossEntropyLoss':
        want_acc, want_w = np.asarray(sum(tok)), np.asarray(1.0 if any(wts) else 0.0)
      else:
        want_acc, want_w = np.asarray(sum(tok)), np.asarray(sum(wts))
      ga, gw = np.asarray(arrs[1], np.float64), np.asarray(arrs[2], np.float64)
      require(ga.shape == want_acc.shape and bool(np.all(np.isfinite(ga))) and bool(np.all(np.abs(ga - want_acc) <= 1e-5 * (1 + np.abs(want_acc)))) and
              bool(np.all(gw == want_w)), '%s: a masked position with a non-finite cross entropy leaks into the single-example statistic' % spec['name'],
              [want_acc.tolist(), want_w.tolist()], [core.jsonable(ga.tolist()), gw.tolist()], case=nc)
      # two examples reduced together (un-jitted vmap, then the jitted batch path)
      ys2 = jnp.asarray(np.asarray([y, other[0]], np.int32))
      ps2 = jnp.asarray(np.asarray([pred, other[1]], np.float32))
      import jax
      red = jax.vmap(m.evaluate_example)({'y': ys2}, ps2).reduce()
      bat = _metrics.evaluate_batch(m, {'y': ys2}, ps2, jnp.asarray([True, True]))
      one_other = m.evaluate_example({'y': ys2[1]}, ps2[1])
      want_res = np.asarray(st.merge(one_other).result(), np.float64)
      for what, r_ in (('vmap + reduce', red), ('evaluate_batch', bat)):
        gr = np.asarray(r_.result(), np.float64)
        require(gr.shape == want_res.shape and bool(np.all(np.isfinite(gr))) and bool(np.all(np.abs(gr - want_res) <= 1e-5 * (1 + np.abs(want_res)))),
                '%s (%s): a masked non-finite position of one example poisons the result of two examples' % (spec['name'], what),
                core.jsonable(want_res.tolist()), core.jsonable(gr.tolist()), case=nc)
      evals += 1
  return {'evals': evals, 'nontrivial': True, 'outcome': evals}


def protocol(case):
  """Metric objects as Python values: copies / pickles / replace() of a metric are equal to it, hash alike and compute the
  same statistic; two metrics of the family that compare EQUAL must have the same definition (the jitted evaluation is
  keyed on equality and hash, so an equality that merges differently defined metrics makes one silently compute the other)."""
  import copy
  import pickle
  import jax.numpy as jnp
  fam, c = case['family'], 3
  specs = specs_cls(c, False) if fam == 'cls' else specs_seq(c, False)
  if fam == 'cls':
    probes = [({'y': 1, 'domain_id': 1}, [0.5, 2.0, 2.0]), ({'y': 2, 'domain_id': 0}, [3.0, -1.0, 0.0]), ({'y': 0, 'domain_id': 1}, [0.0, 0.0, 0.0])]
  else:
    probes = [({'y': [1, 2, 0], 'domain_id': 1}, [[0., 3., 1.], [2., 1., 2.], [5., 0., 0.]]),
              ({'y': [2, 0, 1], 'domain_id': 0}, [[1., 1., 1.], [0., 2., 2.], [0., 4., 3.]])]
  built = [mr.build(sp) for sp in specs]
  refs = []
  for sp in specs:
    r = []
    for ex, pred in probes:
      try:
        r.append(core.digest([np.asarray(a, np.float64).round(6).tolist() for a in mr.ref_stat(sp, {k: np.asarray(v) for k, v in ex.items()}, pred)[1:]]))
      except Exception:  # pylint: disable=broad-except
        r.append('n/a')
    refs.append(r)
  evals = 0
  for sp, m, rf in zip(specs, built, refs):
    row = {'spec': sp}
    clones = {'copy': copy.copy(m), 'deepcopy': copy.deepcopy(m), 'pickle': pickle.loads(pickle.dumps(m)), 'replace': m.replace()}
    for nm, cl in clones.items():
      require(cl == m and hash(cl) == hash(m), 'a %s of a metric is not equal to it / hashes differently' % nm, case=row)
      ex, pred = probes[0]
      a = mr.stat_arrays(m.evaluate_example({k: jnp.asarray(np.asarray(v, np.int32)) for k, v in ex.items()}, jnp.asarray(np.asarray(pred, np.float32))))
      b = mr.stat_arrays(cl.evaluate_example({k: jnp.asarray(np.asarray(v, np.int32)) for k, v in ex.items()}, jnp.asarray(np.asarray(pred, np.float32))))
      require(all(np.array_equal(np.asarray(x), np.asarray(y)) for x, y in zip(a[1:], b[1:])), 'a %s of a metric computes another '
              'statistic' % nm, case=row)
      evals += 1
  for i in range(len(specs)):
    for j in range(i + 1, len(specs)):
      if built[i] == built[j]:
        require(refs[i] == refs[j], 'two metric objects with different definitions compare equal (%r vs %r)' % (specs[i], specs[j]),
                case={'spec': specs[i], 'other': specs[j]})
        require(hash(built[i]) == hash(built[j]), 'equal metric objects hash differently', case={'spec': specs[i], 'other': specs[j]})
      evals += 1
  return {'evals': evals, 'nontrivial': True, 'outcome': [fam, len(specs)]}


def jit_path(case):
  """metrics.evaluate_batch is jitted with the metric object as a static (hashed/compared) argument. A group of
  metric objects that differ in exactly ONE constructor field is evaluated one after another, in one process, on the
  same batch shapes: each must still equal its own reference (a field missing from hash/eq would make a later object
  silently reuse the computation traced for an earlier one)."""
  import jax.numpy as jnp
  from fedjax.core import metrics
  specs = case['specs']
  fam, c, l = case['family'], case['C'], case.get('L')
  if fam == 'cls':
    rows = [(t, s) for s in cls_scores(c, with_inf=False)[:12] for t in range(c)]
  else:
    mats = [np.array(m, np.float64).reshape(l, c).tolist() for m in itertools.product((-1.0, 0.0, 1.0), repeat=l * c)][::7]
    rows = [(list(t), m) for m in mats for t in itertools.product(range(c), repeat=l)]
  ys = np.asarray([r[0] for r in rows], np.int32)
  preds = np.asarray([r[1] for r in rows], np.float32)
  mask = np.arange(len(rows)) % 5 != 4
  evals = 0
  for rnd in range(2):  # second round: every object is evaluated again after all the others were traced
    for spec in specs:
      m = mr.build(spec)
      st = mr.stat_arrays(metrics.evaluate_batch(m, {'y': jnp.asarray(ys)}, jnp.asarray(preds), jnp.asarray(mask)))
      want = None
      for r, keep in zip(rows, mask):
        if not keep:
          continue
        one = mr.ref_stat(spec, {'y': np.asarray(r[0])}, r[1])
        want = one if want is None else mr.ref_merge(want, one)
      for nm, g, w in zip(('accum', 'weight'), st[1:], want[1:]):
        g, w = np.asarray(g, np.float64), np.asarray(w, np.float64)
        require(g.shape == w.shape and bool(np.all(np.abs(g - w) <= 1e-4 * (1 + np.abs(w)))),
                'evaluate_batch(%s): %s differs from the sum of the reference single-example statistics (evaluated after '
                'sibling objects that differ in one constructor field)' % (json.dumps(spec), nm), w.tolist(), g.tolist(),
                case=dict(case, failing=spec))
      evals += 1
  return {'evals': evals, 'nontrivial': True, 'outcome': [fam, len(specs)]}


def keys(case):
  """target_key / pred_key / domain_id_key: the statistic is computed from the entries the KEYS name (any str, including
  '' and the name of the other field), while entries under the default names hold decoys. Oracle: the default-key twin
  on the bare values (whose definition the grid sub-space decides)."""
  import jax.numpy as jnp
  spec, fam, c, l = case['spec'], case['family'], case['C'], case.get('L')
  if fam == 'cls':
    rows = [(t, sc) for sc in cls_scores(c, with_inf=False)[::3] for t in range(c)]
  else:
    mats = [np.array(m, np.float64).reshape(l, c).tolist() for m in itertools.product((-1.0, 0.0, 1.0), repeat=l * c)][::11]
    rows = [(list(t), m) for m in mats for t in itertools.product(range(c), repeat=l)][::3]
  perdom = spec['name'] == 'PerDomainMetric'
  inner = spec['base'] if perdom else spec
  has_pred = inner['name'] not in PRED_FREE
  base = mr.build(spec)
  evals, outs = 0, set()
  for tk in ('y', 'label', '', 'x'):
    for pk in ((None, 'logits', '', 'y') if has_pred else (None,)):
      for dk in (('domain_id', 'dom', '') if perdom else (None,)):
        if dk is not None and dk == tk:
          continue
        sp_in = dict(inner, target_key=tk)
        if has_pred:
          sp_in['pred_key'] = pk
        twin_spec = dict(spec, base=sp_in, domain_id_key=dk) if perdom else sp_in
        twin = mr.build(twin_spec)
        for i, (y, pred) in enumerate(rows):
          y_a = jnp.asarray(np.asarray(y, np.int32))
          p_a = jnp.asarray(np.asarray(pred, np.float32))
          decoy_y = jnp.asarray((np.asarray(y, np.int32) + 1) % c)
          decoy_p = -p_a + 0.25
          ex0 = {'y': y_a}
          ex = {'y': decoy_y, 'x': decoy_y, 'label': decoy_y, '': decoy_y}
          ex[tk] = y_a
          if perdom:
            d = i % spec['num_domains']
            ex0['domain_id'] = jnp.asarray(np.int32(d))
            for kk in ('domain_id', 'dom'):
              ex[kk] = jnp.asarray(np.int32((d + 1) % spec['num_domains']))
            if '' not in (tk,):
              ex[''] = jnp.asarray(np.int32((d + 1) % spec['num_domains']))
            ex[dk] = jnp.asarray(np.int32(d))
          prediction = p_a if pk is None else {**{kk: decoy_p for kk in ('logits', '', 'y', 'pred')}, pk: p_a}
          want = mr.stat_arrays(base.evaluate_example(ex0, p_a))
          got = mr.stat_arrays(twin.evaluate_example(ex, prediction))
          ok = got[0] == want[0] and all(np.asarray(g).shape == np.asarray(w).shape and np.array_equal(np.asarray(g), np.asarray(w), equal_nan=True)
                                         for g, w in zip(got[1:], want[1:]))
          require(ok, 'metric with target_key=%r pred_key=%r domain_id_key=%r does not read the entries its keys name' % (tk, pk, dk),
                  [np.asarray(w).tolist() for w in want[1:]], [np.asarray(g).tolist() for g in got[1:]],
                  case=dict(case, twin=twin_spec, row={'y': np.asarray(y).tolist(), 'pred': np.asarray(pred).tolist()}))
          evals += 1
        outs.add(core.digest([tk, pk, dk]))
  return {'evals': evals, 'nontrivial': True, 'outcome': sorted(outs)}


def replaced(case):
  """metric.replace(field=value) on an object that has ALREADY been used must behave like a freshly built metric."""
  import jax.numpy as jnp
  from fedjax.core import metrics
  spec, field, value = case['spec'], case['field'], case['value']
  fam, c, l = case['family'], case['C'], case.get('L')
  if fam == 'cls':
    rows = [(t, s) for s in cls_scores(c, with_inf=False)[:10] for t in range(c)]
  else:
    mats = [np.array(m, np.float64).reshape(l, c).tolist() for m in itertools.product((-1.0, 0.0, 1.0), repeat=l * c)][::11]
    rows = [(list(t), m) for m in mats for t in itertools.product(range(c), repeat=l)]
  if spec['name'] == 'ConfusionMatrix':
    # the new object has another number of classes: use rows of that width
    c2 = value
    rows2 = [(t, s) for s in cls_scores(c2, with_inf=False)[:10] for t in range(c2)]
  else:
    rows2 = rows
  m1 = mr.build(spec)
  ys, preds = np.asarray([r[0] for r in rows], np.int32), np.asarray([r[1] for r in rows], np.float32)
  _ = metrics.evaluate_batch(m1, {'y': jnp.asarray(ys)}, jnp.asarray(preds))       # use it (jitted path)
  _ = m1.zero()
  _ = _eval_one(m1, rows[0][0], rows[0][1])                                           # and the plain path
  v = tuple(value) if isinstance(value, list) and field != 'logits_mask' else value
  if field == 'logits_mask' and value is not None:
    v = tuple(float('-inf') if x == '-inf' else float(x) for x in value)
  m2 = m1.replace(**{field: v})
  spec2 = dict(spec, **{field: value})
  ys2, preds2 = np.asarray([r[0] for r in rows2], np.int32), np.asarray([r[1] for r in rows2], np.float32)
  st = mr.stat_arrays(metrics.evaluate_batch(m2, {'y': jnp.asarray(ys2)}, jnp.asarray(preds2)))
  want = None
  for r in rows2:
    one = mr.ref_stat(spec2, {'y': np.asarray(r[0])}, r[1])
    want = one if want is None else mr.ref_merge(want, one)
  for nm, g, w in zip(('accum', 'weight'), st[1:], want[1:]):
    g, w = np.asarray(g, np.float64), np.asarray(w, np.float64)
    require(g.shape == w.shape and bool(np.all(np.abs(g - w) <= 1e-4 * (1 + np.abs(w)))), 'metric.replace(%s=%r) on a used '
            'object: evaluate_batch %s differs from a freshly built metric' % (field, value, nm), w.tolist(), g.tolist())
  z = mr.stat_arrays(m2.zero())
  zw = mr.ref_zero(spec2, {'y': np.asarray(rows2[0][0])}, rows2[0][1])
  for g, w in zip(z[1:], zw[1:]):
    if np.asarray(w).ndim and np.asarray(g).ndim:  # a scalar zero broadcasts (per-position metrics): fine
      require(np.asarray(g).shape == np.asarray(w).shape, 'metric.replace(%s=%r): zero() has a stale shape' % (field, value),
              list(np.asarray(w).shape), list(np.asarray(g).shape))
  g1 = _eval_one(m2, rows2[-1][0], rows2[-1][1])
  _cmp(spec2, g1, mr.ref_stat(spec2, {'y': np.asarray(rows2[-1][0])}, rows2[-1][1]), rows2[-1][0], rows2[-1][1], None,
       'replaced metric, plain call')
  return {'evals': 3, 'nontrivial': True, 'outcome': [spec['name'], field]}


SUBS = {'grid': grid, 'identities': identities, 'dtypes': dtypes, 'protocol': protocol, 'ce_infinite': ce_infinite, 'jit_path': jit_path, 'replaced': replaced, 'keys': keys}
TIMEOUTS = {'grid': 600, 'identities': 300, 'dtypes': 600, 'protocol': 600, 'ce_infinite': 300, 'jit_path': 900, 'replaced': 600}


def decode_case(case):
  return case


def specs_cls(c, th):
  out = [{'name': 'CrossEntropyLoss'}, {'name': 'Accuracy'}, {'name': 'ConfusionMatrix', 'num_classes': c}]
  out += [{'name': 'TopKAccuracy', 'k': k} for k in sorted({-2, -1, 0, 1, 2, c, c + 1})]
  for nd in (1, 2, 3):
    out.append({'name': 'PerDomainMetric', 'base': {'name': 'Accuracy'}, 'num_domains': nd})
    out.append({'name': 'PerDomainMetric', 'base': {'name': 'CrossEntropyLoss'}, 'num_domains': nd})
  out.append({'name': 'PerDomainMetric', 'base': {'name': 'ConfusionMatrix', 'num_classes': c}, 'num_domains': 2})
  out.append({'name': 'PerDomainMetric', 'base': {'name': 'TopKAccuracy', 'k': 2}, 'num_domains': 2})
  return out


def specs_seq(c, th):
  masks = [[], [0], [0, 2]] if c > 2 else [[], [0], [0, 1]]
  # masked_target_values is a set of label ids given as a sequence: repeated values mean nothing
  masks += [[0, 0], [c - 1, 0, c - 1]]
  # masks with -inf entries, with a large finite negative entry ("-1e9 instead of -inf") and finite per-class biases
  lms = [None, [0.0] * (c - 1) + ['-inf'], ['-inf'] + [0.0] * (c - 1), [0.0] * (c - 1) + [-1e9],
         [1.0] + [0.0] * (c - 2) + [-1.0]]
  out = []
  for mv in masks:
    for pp in (False, True):
      out.append({'name': 'SequenceTokenCrossEntropyLoss', 'masked_target_values': mv, 'per_position': pp})
      for lm in lms:
        out.append({'name': 'SequenceTokenAccuracy', 'masked_target_values': mv, 'logits_mask': lm,
                    'per_position': pp})
        for k in ((-1, 0, 1, 2, c + 1) if th else (-1, 1, 2)):
          if not th and (lm is not None and lm[0] != 0.0) and k != 2:
            continue
          out.append({'name': 'SequenceTokenTopKAccuracy', 'k': k, 'masked_target_values': mv, 'logits_mask': lm,
                      'per_position': pp})
      for oov in ([1], [1, 2], [0, 1]):
        out.append({'name': 'SequenceTokenOOVRate', 'oov_target_values': oov, 'masked_target_values': mv,
                    'per_position': pp})
    out.append({'name': 'SequenceCrossEntropyLoss', 'masked_target_values': mv})
    out.append({'name': 'SequenceTokenCount', 'masked_target_values': mv})
    out.append({'name': 'SequenceCount', 'masked_target_values': mv})
    out.append({'name': 'SequenceLength', 'masked_target_values': mv})
    for eos in (1, 2):
      out.append({'name': 'SequenceTruncationRate', 'eos_target_value': eos, 'masked_target_values': mv})
  out.append({'name': 'PerDomainMetric', 'base': {'name': 'SequenceTokenAccuracy', 'masked_target_values': [0],
                                                  'per_position': True}, 'num_domains': 2})
  out.append({'name': 'PerDomainMetric', 'base': {'name': 'SequenceTokenCount', 'masked_target_values': [0]},
              'num_domains': 3})
  return out


PRED_FREE = ('SequenceTokenCount', 'SequenceCount', 'SequenceLength', 'SequenceTruncationRate', 'SequenceTokenOOVRate')


# sub-spaces re-executed under other interpreter configurations (mc.core.CONFIGS): {configuration: {sub-space: stride}}
# quick tier: every stride-th planned case, thorough tier: all planned cases
CONFIG_PASSES = {'x64': {'grid': 12, 'identities': 1}, 'x64_late': {'grid': 48}}


def plan(ctx):
  th = ctx.tier == 'thorough'
  ctx.rule = ('per metric object: the complete grid scores {-1,0,1}^(LxC) (+ extreme rows 1e30 / +-inf for '
              'classification) x all targets (x all domain ids); distinct = (metric spec, family, C, L); every such '
              'grid is non-trivial (contains all tie patterns, fully masked sequences and k outside [1,C])')
  ctx.assumptions += ['float32 vs float64 reference compared at 1e-5', 'CrossEntropyLoss is not driven with +-inf '
                      'scores (0 * -inf is outside its documented domain); 1e30 magnitudes are included']
  cases = []
  for c in ((2, 3, 4) if th else (2, 3)):
    for spec in specs_cls(c, th):
      cases.append({'spec': spec, 'family': 'cls', 'C': c})
  shapes = [(1, 2), (1, 3), (2, 2), (2, 3), (3, 2), (4, 2), (2, 4)] if th else [(1, 3), (2, 2), (3, 2)]
  for l, c in shapes:
    for spec in specs_seq(c, th):
      base = spec['base']['name'] if spec['name'] == 'PerDomainMetric' else spec['name']
      stride = 1
      if base in PRED_FREE:
        stride = 3 ** (l * c)  # the prediction is unused: one score matrix suffices
      cases.append({'spec': spec, 'family': 'seq', 'C': c, 'L': l, 'stride': stride})
  ctx.pmap('grid', cases, chunk=4)
  ctx.run('identities', [{'C': 2}, {'C': 3}, {'C': 4}])
  ctx.run('protocol', [{'family': 'cls'}, {'family': 'seq'}])
  ctx.run('ce_infinite', [{}])
  ctx.pmap('dtypes', [{'C': c, 'label_dtype': d, 'int_scores': c == 3} for c in (3, 20, 62, 130)
                      for d in ('uint8', 'int8', 'int16', 'uint16', 'int32') if c - 1 <= np.iinfo(d).max], chunk=2)
  lm3 = [None, [0.0, 0.0, '-inf'], ['-inf', 0.0, 0.0], [0.0, '-inf', 0.0], [0.0, 0.0, -1e9], [1.0, 0.0, -1.0]]
  groups = [
      ('seq', 3, 2, [{'name': 'SequenceTokenAccuracy', 'logits_mask': lm} for lm in lm3]),
      ('seq', 3, 2, [{'name': 'SequenceTokenTopKAccuracy', 'k': 2, 'logits_mask': lm} for lm in lm3]),
      ('seq', 3, 2, [{'name': 'SequenceTokenTopKAccuracy', 'k': k} for k in (0, 1, 2, 3)]),
      # tuples with EQUAL hashes in CPython (hash(-1) == hash(-2), hash(-inf) == hash(-314159.0)), 0.0 / -0.0, 1 / 1.0 / True
      ('seq', 3, 2, [{'name': 'SequenceTokenAccuracy', 'logits_mask': lm} for lm in ([0.0, 0.0, -1.0], [0.0, 0.0, -2.0], [0.0, 0.0, '-inf'],
                                                                                      [0.0, 0.0, -314159.0], [-1.0, 0.0, 0.0], [-2.0, 0.0, 0.0])]),
      ('seq', 3, 2, [{'name': 'SequenceTokenTopKAccuracy', 'k': 2, 'logits_mask': lm} for lm in ([0.0, -1.0, 0.0], [0.0, -2.0, 0.0], [0.0, '-inf', 0.0],
                                                                                               [0.0, -314159.0, 0.0])]),
      ('seq', 3, 2, [{'name': 'SequenceTokenAccuracy', 'masked_target_values': mv} for mv in ([], [0], [0, 2], [1])]),
      ('seq', 3, 2, [{'name': 'SequenceTokenAccuracy', 'per_position': pp} for pp in (False, True)]),
      ('seq', 3, 2, [{'name': 'SequenceTokenCrossEntropyLoss', 'masked_target_values': mv, 'per_position': pp}
                     for mv in ([0], [1]) for pp in (False, True)]),
      ('seq', 3, 2, [{'name': 'SequenceTokenOOVRate', 'oov_target_values': o} for o in ([1], [2], [1, 2])]),
      ('seq', 3, 2, [{'name': 'SequenceTruncationRate', 'eos_target_value': e} for e in (0, 1, 2)]),
      ('seq', 3, 2, [{'name': 'SequenceTokenCount', 'masked_target_values': mv} for mv in ([], [0], [2])]),
      ('seq', 3, 2, [{'name': 'SequenceLength', 'masked_target_values': mv} for mv in ([], [0], [2])]),
      ('cls', 3, None, [{'name': 'TopKAccuracy', 'k': k} for k in (0, 1, 2, 3)]),
      ('cls', 3, None, [{'name': 'PerDomainMetric', 'base': {'name': 'TopKAccuracy', 'k': k}, 'num_domains': 2} for k in (1, 2)]),
  ]
  jc = []
  for fam, c, l, specs in groups:
    if fam == 'cls' and specs[0]['name'] == 'PerDomainMetric':
      continue  # needs a domain feature: covered by the grid sub-space
    jc.append({'family': fam, 'C': c, 'L': l, 'specs': specs})
  ctx.pmap('jit_path', jc, chunk=1)
  rp = [
      ('cls', 3, None, {'name': 'ConfusionMatrix', 'num_classes': 3}, 'num_classes', 5),
      ('cls', 3, None, {'name': 'ConfusionMatrix', 'num_classes': 3}, 'num_classes', 2),
      ('cls', 3, None, {'name': 'TopKAccuracy', 'k': 1}, 'k', 2),
      ('seq', 3, 2, {'name': 'SequenceTokenTopKAccuracy', 'k': 2}, 'k', 1),
      ('seq', 3, 2, {'name': 'SequenceTokenAccuracy'}, 'masked_target_values', [0, 2]),
      ('seq', 3, 2, {'name': 'SequenceTokenAccuracy'}, 'logits_mask', [0.0, '-inf', 0.0]),
      ('seq', 3, 2, {'name': 'SequenceTokenAccuracy'}, 'per_position', True),
      ('seq', 3, 2, {'name': 'SequenceTokenOOVRate', 'oov_target_values': [1]}, 'oov_target_values', [2]),
      ('seq', 3, 2, {'name': 'SequenceTokenOOVRate', 'oov_target_values': [1]}, 'masked_target_values', [0, 1]),
      ('seq', 3, 2, {'name': 'SequenceTruncationRate', 'eos_target_value': 1}, 'eos_target_value', 2),
      ('seq', 3, 2, {'name': 'SequenceTokenCrossEntropyLoss'}, 'per_position', True),
      ('seq', 3, 2, {'name': 'SequenceLength'}, 'masked_target_values', [2]),
  ]
  kc = [('cls', 3, None, sp) for sp in specs_cls(3, False) if sp['name'] != 'TopKAccuracy' or sp['k'] in (1, 2)]
  kc += [('seq', 3, 2, sp) for sp in [
      {'name': 'SequenceTokenCrossEntropyLoss', 'masked_target_values': [0]}, {'name': 'SequenceCrossEntropyLoss', 'masked_target_values': [0]},
      {'name': 'SequenceTokenAccuracy', 'masked_target_values': [0], 'logits_mask': [0.0, 0.0, '-inf']},
      {'name': 'SequenceTokenTopKAccuracy', 'k': 2, 'masked_target_values': [0]}, {'name': 'SequenceTokenCount', 'masked_target_values': [0]},
      {'name': 'SequenceCount', 'masked_target_values': [0]}, {'name': 'SequenceLength', 'masked_target_values': [0]},
      {'name': 'SequenceTruncationRate', 'eos_target_value': 1, 'masked_target_values': [0]},
      {'name': 'SequenceTokenOOVRate', 'oov_target_values': [1], 'masked_target_values': [0]},
      {'name': 'PerDomainMetric', 'base': {'name': 'SequenceTokenAccuracy', 'masked_target_values': [0]}, 'num_domains': 2}]]
  ctx.pmap('keys', [{'family': f, 'C': c, 'L': l, 'spec': sp} for f, c, l, sp in kc], chunk=2)
  ctx.pmap('replaced', [{'family': f, 'C': c, 'L': l, 'spec': sp, 'field': fld, 'value': val} for f, c, l, sp, fld, val in rp],
           chunk=1)
  ctx.extra['bounds'] = {'classes': [2, 3], 'seq_shapes_LxC': shapes, 'metric_objects': len(cases)}

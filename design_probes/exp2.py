import numpy as np, jax, jax.numpy as jnp, traceback, tempfile, os
import fedjax
from fedjax.algorithms import apfl, agnostic_fed_avg, fed_avg
from fedjax.core import client_datasets as cds

def t(name, f):
    try:
        print(name, '->', f())
    except Exception as e:
        print(name, 'EXC', type(e).__name__, str(e)[:300])

def loss(params, batch, rng):
    return jnp.square(batch['x'] @ params['w'] - batch['y'])
grad_fn = fedjax.grad(loss)
def mk(n, seed, dom=None):
    r = np.random.RandomState(seed)
    d = {'x': r.randn(n,2).astype(np.float32), 'y': r.randn(n).astype(np.float32)}
    if dom is not None: d['domain_id'] = np.array(dom, dtype=np.int32)
    return cds.ClientDataset(d)
hp = cds.ShuffleRepeatBatchHParams(batch_size=2, num_epochs=1, seed=0)
params = {'w': jnp.array([0.5,-0.5])}
keys = jax.random.split(jax.random.PRNGKey(0), 3)

def run_apfl():
    alg = apfl.adaptive_personalized_federated_learning(grad_fn, fedjax.optimizers.sgd(0.1), fedjax.optimizers.sgd(1.0), hp, 0.5)
    st = alg.init(params)
    clients = [(b'a', mk(3,1), keys[0]), (b'b', mk(2,2), keys[1])]
    st1, d = alg.apply(st, clients)
    print('input client_states after apply:', list(st.client_states))
    st1b, d = alg.apply(st, clients)
    return st1.params, st1b.params
t('apfl', run_apfl)

def run_agn():
    alg = agnostic_fed_avg.agnostic_federated_averaging(loss, fedjax.optimizers.sgd(0.1), fedjax.optimizers.sgd(1.0), hp, cds.PaddedBatchHParams(batch_size=2), [0.5,0.5], 0.1, domain_window_size=1)
    st = alg.init(params)
    out=[]
    rounds = [
      [(b'a', mk(3,1,[0,0,0]), keys[0]), (b'b', mk(2,2,[0,0]), keys[1])],   # domain 1 gets nothing
      [(b'a', mk(3,1,[0,1,0]), keys[0]), (b'b', mk(2,2,[0,0]), keys[1])],
      [(b'a', mk(3,1,[0,1,0]), keys[0]), (b'b', mk(2,2,[1,0]), keys[1])],
    ]
    for cl in rounds:
        st, _ = alg.apply(st, cl)
        out.append((np.asarray(st.params['w']), np.asarray(st.domain_weights), [np.asarray(w) for w in st.domain_window]))
    return out
t('agnostic', run_agn)

def run_empty():
    alg = fed_avg.federated_averaging(grad_fn, fedjax.optimizers.sgd(0.1), fedjax.optimizers.sgd(1.0), hp)
    st = alg.init(params)
    st1, d = alg.apply(st, [(b'a', mk(0,1), keys[0])])
    return st1.params, d
t('fedavg all-empty', run_empty)
def run_none():
    alg = fed_avg.federated_averaging(grad_fn, fedjax.optimizers.sgd(0.1), fedjax.optimizers.sgd(1.0), hp)
    st = alg.init(params)
    st1, d = alg.apply(st, [])
    return st1.params, d
t('fedavg no clients', run_none)
from fedjax.core import in_memory_federated_data as im
fd = im.InMemoryFederatedData({b'a': {'x': np.arange(3)}, b'b': {'x': np.arange(2)}})
t('inmem empty slice', lambda: fd.slice(b'c', None).num_clients())
t('inmem unknown', lambda: fd.get_client(b'zz'))

"""C15 - centralised streams over many clients neither lose nor duplicate.

E-enum: all client-size sequences x batch sizes x buckets for the padded concatenation; every RNG
answer script of the buffered shuffles (scripted seam) plus real seeds; repeatable iterator bases.
"""
import itertools
import math
import os
import shutil
import tempfile

import numpy as np

from mc import core, seams
from mc.core import require, Violation
from mc.ref import batching as ref

PROPERTY = 'C15'
LEVEL = 'exploration'
MASK = '__mask__'


def _pre():
  from fedjax.core import client_datasets as cds
  return cds.BatchPreprocessor([lambda x: {**x, 'z': x['i'] * 2 + 1}])


def make_datasets(sizes, pre, seed=0):
  """Client k holds examples with globally unique ids (so loss/duplication/reordering is visible)."""
  import fedjax
  out, off = [], 1 + seed % 7
  for k, n in enumerate(sizes):
    raw = {'i': np.arange(off, off + n, dtype=np.int32),
           'f': (np.arange(off, off + n, dtype=np.float32) * 0.5).reshape(n, 1)}
    if k % 2:
      raw = {'f': raw['f'], 'i': raw['i']}   # same feature SET, other dict insertion order: features go by name
    off += n
    out.append(fedjax.ClientDataset(raw, pre))
  return out


def _canon_order(raw):
  """InMemoryFederatedData insists on one key order for all clients."""
  return {k: raw[k] for k in sorted(raw)}


def check_padded_stream(batches, sizes, bs, buckets, seed=0, order=None):
  """order: client indices in the order in which the source yields them (default: index order)."""
  total = sum(sizes)
  off = 1 + seed % 7
  want = list(range(off, off + total))
  if order is not None:
    starts = [off + sum(sizes[:k]) for k in range(len(sizes))]
    want = [v for k in order for v in range(starts[k], starts[k] + sizes[k])]
  m = len(batches)
  reals = []
  for k, b in enumerate(batches):
    require(MASK in b, 'batch %d has no mask' % k)
    mask = np.asarray(b[MASK])
    r = int(mask.sum())
    require(mask.tolist() == [True] * r + [False] * (len(mask) - r), 'batch %d: mask is not a True-prefix' % k,
            None, mask.tolist())
    reals.append(r)
    for key in ('i', 'f', 'z'):
      require(key in b, 'batch %d lacks feature %s' % (k, key))
      require(len(np.asarray(b[key])) == len(mask), 'batch %d: feature %s row count != mask length' % (k, key))
      require(not np.any(np.asarray(b[key])[r:]), 'batch %d: padded rows of %s not zero' % (k, key))
    require(np.array_equal(np.asarray(b['z'])[:r], np.asarray(b['i'])[:r] * 2 + 1),
            'batch %d: preprocessor output inconsistent' % k)
    require(np.array_equal(np.asarray(b['f'])[:r, 0], np.asarray(b['i'])[:r].astype(np.float32) * 0.5),
            'batch %d: features of one example split apart' % k)
  got = [int(v) for b, r in zip(batches, reals) for v in np.asarray(b['i'])[:r]]
  require(got == want, 'real rows are not the concatenation of the datasets in client and example order', want, got)
  # A single trailing all-padding batch is tolerated (the statement constrains content after padded rows are
  # removed and allows a non-full last batch).
  core_b, core_r = batches, reals
  if m and reals[-1] == 0:
    cands = [bs // 2 ** j for j in range(buckets)]
    require(len(np.asarray(batches[-1][MASK])) in cands, 'trailing empty batch has a size outside the buckets')
    core_b, core_r = batches[:-1], reals[:-1]
  chunks = ref.seq_chunks(total, bs)
  require(len(core_b) == len(chunks), 'wrong number of batches', len(chunks), len(core_b))
  for k, (b, r, (s, e)) in enumerate(zip(core_b, core_r, chunks)):
    require(r == e - s, 'batch %d holds %d real rows' % (k, r), e - s, r)
    size = len(np.asarray(b[MASK]))
    exp = bs if r == bs else ref.final_bucket_size(r, bs, buckets)
    require(size == exp, 'batch %d has %d rows (bucket rule)' % (k, size), exp, size)
  return [reals, [len(np.asarray(b[MASK])) for b in batches]]


def padded_cds(case):
  import fedjax
  from fedjax.core import client_datasets as cds
  sizes, bs, buckets = case['sizes'], case['B'], case['buckets']
  seed = case.get('seed', 0)
  pre = _pre()
  dss = make_datasets(sizes, pre, seed)
  kind = case.get('input', 'list')
  if kind == 'list':
    src = dss
  elif kind == 'gen':
    src = (d for d in dss)
  else:
    src = iter(dss)
  if case.get('route'):
    # hparams object plus keyword overrides that turn it into the effective (bs, buckets) - also back to a default value
    base, over = case['route']
    it = fedjax.padded_batch_client_datasets(src, cds.PaddedBatchHParams(**base), **over)
  elif case.get('hp'):
    it = fedjax.padded_batch_client_datasets(src, cds.PaddedBatchHParams(batch_size=bs,
                                                                          num_batch_size_buckets=buckets))
  else:
    it = fedjax.padded_batch_client_datasets(src, batch_size=bs, num_batch_size_buckets=buckets)
  out = check_padded_stream(list(it), sizes, bs, buckets, seed)
  return {'outcome': out, 'nontrivial': 0 in sizes or any(s % bs for s in sizes)}


def padded_fd(case):
  import fedjax
  sizes, bs, buckets = case['sizes'], case['B'], case['buckets']
  seed = case.get('seed', 0)
  dss = make_datasets(sizes, None, seed)
  ids = [b'c%03d' % k if k % 2 else b'c%03d\x00' % k for k in range(len(sizes))]
  mapping = {cid: _canon_order(d.raw_examples) for cid, d in reversed(list(zip(ids, dss)))}
  fd = fedjax.InMemoryFederatedData(mapping)
  tmp = None
  if case.get('impl') in ('sql', 'sub'):
    from fedjax.core import sqlite_federated_data as sq, federated_data as fdm
    tmp = tempfile.mkdtemp(prefix='c15p_')
    path = os.path.join(tmp, 'fd.sqlite')
    with sq.SQLiteFederatedDataBuilder(path) as b:
      b.add_many([(cid, mapping[cid]) for cid in reversed(ids)])   # insertion order = reverse id order
    fd = sq.SQLiteFederatedData.new(path)
    if case['impl'] == 'sub':
      fd = fdm.SubsetFederatedData(fd, ids)
  fd = fd.preprocess_batch(lambda x: {**x, 'z': x['i'] * 2 + 1})
  try:
    # the SQLite-backed dataset iterates in insertion order (here: reverse id order), the in-memory one in id order
    order = list(range(len(sizes)))[::-1] if case.get('impl') == 'sql' else None   # a Subset iterates in sorted id order
    out = check_padded_stream(list(fedjax.padded_batch_federated_data(fd, batch_size=bs,
                                                                     num_batch_size_buckets=buckets)),
                              sizes, bs, buckets, seed, order)
  finally:
    if tmp:
      shutil.rmtree(tmp, ignore_errors=True)
  return {'outcome': out if len(sizes) < 20 else [len(out[0])], 'nontrivial': 0 in sizes or any(s % bs for s in sizes)}


def mismatch(case):
  """A dataset with another preprocessor object / feature set at position p must be rejected."""
  import fedjax
  from fedjax.core import client_datasets as cds
  sizes, p, kind, fn = case['sizes'], case['pos'], case['kind'], case['fn']
  pre = _pre()
  dss = make_datasets(sizes, pre)
  if kind == 'pre':
    other = cds.BatchPreprocessor(pre._fns) if hasattr(pre, '_fns') else _pre()  # equal chain, other object
    odd = fedjax.ClientDataset(dss[p].raw_examples, other)
  else:
    raw = dict(dss[p].raw_examples)
    if kind == 'feat':
      raw['extra'] = raw['i'].copy()
    elif kind == 'feat_renamed':     # same NUMBER of features, one under another name
      raw['g'] = raw.pop('f')
    elif kind == 'feat_missing':     # a strict subset of the others' features
      del raw['f']
    elif kind == 'feat_case':        # names that only differ in case / are prefixes of each other
      raw['F'] = raw.pop('f')
    odd = fedjax.ClientDataset(raw, pre)
  if p == 0:
    dss = [odd] + dss[1:]
  else:
    dss[p] = odd
  try:
    if fn == 'padded':
      list(fedjax.padded_batch_client_datasets(iter(dss), batch_size=case['B']))
    else:
      list(fedjax.buffered_shuffle_batch_client_datasets(iter(dss), batch_size=case['B'], buffer_size=3,
                                                         rng=np.random.RandomState(0)))
  except ValueError:
    return {'outcome': 'ValueError', 'nontrivial': True}
  raise Violation('mismatching %s at position %d was not rejected with ValueError' % (kind, p))


def _perm_choices(n):
  if n <= 4:
    return [list(p) for p in itertools.permutations(range(n))]
  ident = list(range(n))
  return [ident, ident[::-1], ident[1:] + ident[:1]]


def _scripts(first_len, buffer_size, draws):
  for p in _perm_choices(first_len):
    for ints in itertools.product(range(buffer_size), repeat=draws):
      yield p, list(ints)


def buf_shuffle(case):
  """buffered_shuffle: every script -> output is a permutation of the input."""
  from fedjax.core import client_datasets as cds
  n, buf = case['len'], case['buffer']
  first, draws = min(n, buf), max(0, n - buf)
  scripts = [(case['perm'], case['ints'])] if 'perm' in case else _scripts(first, buf, draws)
  evals, outs = 0, set()
  for perm, ints in scripts:
    rng = seams.ScriptedRandomState(perms=[perm], ints=ints, strict=True)
    src = (x for x in range(100, 100 + n)) if case.get('gen', True) else list(range(100, 100 + n))
    try:
      out = list(cds.buffered_shuffle(src, buf, rng))
    except seams.ScriptExhausted:
      out = None  # the implementation drew more answers than this script provides: not a judged execution
    if out is not None:
      require(sorted(out) == list(range(100, 100 + n)), 'buffered_shuffle output is not a permutation of its input',
              list(range(100, 100 + n)), out, case=dict(case, perm=perm, ints=ints))
      outs.add(tuple(out))
    evals += 1
  return {'evals': evals, 'outcomes': [core.digest(o) for o in outs], 'nontrivial': n > buf,
          'stats': {'scripts': evals}}


def buf_shuffle_seeded(case):
  from fedjax.core import client_datasets as cds
  n, buf = case['len'], case['buffer']
  outs = []
  for seed in case['seeds']:
    a = list(cds.buffered_shuffle(iter(range(n)), buf, np.random.RandomState(seed)))
    b = list(cds.buffered_shuffle(iter(range(n)), buf, np.random.RandomState(seed)))
    require(a == b, 'buffered_shuffle not reproducible for a fixed seed', a, b, case=dict(case, seeds=[seed]))
    require(sorted(a) == list(range(n)), 'not a permutation', None, a, case=dict(case, seeds=[seed]))
    outs.append(tuple(a))
  if buf >= 2 and n >= 3 and len(case['seeds']) >= 5:
    require(any(list(o) != list(range(n)) for o in outs), 'no seed yields a non-identity order (trivial shuffle)')
  return {'evals': len(outs), 'outcomes': [core.digest(o) for o in outs], 'nontrivial': n > buf}


def shuf_batch(case):
  """buffered_shuffle_batch_client_datasets: every script -> each example exactly once, full batches."""
  from fedjax.core import client_datasets as cds
  sizes, bs, buf = case['sizes'], case['B'], case['buffer']
  total = sum(sizes)
  # the shuffled stream has `total` items (the preprocessor is consumed before shuffling)
  first, draws = min(total, buf), max(0, total - buf)
  scripts = [(case['perm'], case['ints'])] if 'perm' in case else _scripts(first, buf, draws)
  pre = _pre()
  evals, outs = 0, set()
  for perm, ints in scripts:
    rng = seams.ScriptedRandomState(perms=[perm], ints=ints, strict=True)
    dss = make_datasets(sizes, pre)
    nc = dict(case, perm=perm, ints=ints)
    try:
      batches = list(cds.buffered_shuffle_batch_client_datasets(iter(dss), bs, buf, rng))
    except seams.ScriptExhausted:
      evals += 1
      continue
    got = []
    for k, b in enumerate(batches):
      rows = len(np.asarray(b['i']))
      if k < len(batches) - 1:
        require(rows == bs, 'non-final batch %d has %d rows' % (k, rows), bs, rows, case=nc)
      else:
        require(1 <= rows <= bs, 'final batch has %d rows' % rows, None, rows, case=nc)
      require(np.array_equal(np.asarray(b['z']), np.asarray(b['i']) * 2 + 1), 'preprocessor not applied', case=nc)
      require(np.array_equal(np.asarray(b['f'])[:, 0], np.asarray(b['i']).astype(np.float32) * 0.5),
              'features of one example split apart', case=nc)
      got += [int(v) for v in np.asarray(b['i'])]
    require(sorted(got) == list(range(1, 1 + total)), 'examples lost or duplicated', list(range(1, 1 + total)),
            sorted(got), case=nc)
    require(len(batches) == math.ceil(total / bs), 'wrong number of batches', math.ceil(total / bs), len(batches),
            case=nc)
    outs.add(tuple(got))
    evals += 1
  return {'evals': evals, 'outcomes': [core.digest(o) for o in outs], 'nontrivial': total > buf and total % bs != 0,
          'stats': {'scripts': evals}}


def _three_fds(sizes, tmp):
  import fedjax
  from fedjax.core import sqlite_federated_data as sq, federated_data as fdm
  ids = [b'c%03d' % k if k % 2 else b'c%03d\x00' % k for k in range(len(sizes))]
  dss = make_datasets(sizes, None)
  mapping = {cid: _canon_order(d.raw_examples) for cid, d in zip(ids, dss)}
  path = os.path.join(tmp, 'fd.sqlite')
  with sq.SQLiteFederatedDataBuilder(path) as b:
    b.add_many([(cid, mapping[cid]) for cid in reversed(ids)])
  mem = fedjax.InMemoryFederatedData(mapping)
  sql = sq.SQLiteFederatedData.new(path)
  sub = fdm.SubsetFederatedData(mem, ids)
  return {'mem': mem, 'sql': sql, 'sub': sub}, ids


def shuffled_clients(case):
  """Each consecutive pass of shuffled_clients is a permutation of the clients (three implementations)."""
  sizes, buf, seed = case['sizes'], case['buffer'], case['seed']
  n = len(sizes)
  tmp = tempfile.mkdtemp(prefix='c15_')
  try:
    fds, ids = _three_fds(sizes, tmp)
    out = {}
    for name, fd in fds.items():
      nc = dict(case, impl=name)
      if 'impl' in case and case['impl'] != name:
        continue
      it = fd.shuffled_clients(buffer_size=buf, seed=seed)
      got = [cid for cid, _ in itertools.islice(it, 3 * n)]
      for p in range(3):
        require(sorted(got[p * n:(p + 1) * n]) == sorted(ids), '%s: pass %d of shuffled_clients is not a '
                'permutation of the clients' % (name, p), sorted(ids), got[p * n:(p + 1) * n], case=nc)
      it2 = fd.shuffled_clients(buffer_size=buf, seed=seed)
      got2 = [cid for cid, _ in itertools.islice(it2, 3 * n)]
      require(got == got2, '%s: shuffled_clients not reproducible for a fixed seed' % name, got, got2, case=nc)
      # datasets travel with their ids
      for cid, ds in itertools.islice(fd.shuffled_clients(buffer_size=buf, seed=seed), n):
        require(len(ds) == sizes[ids.index(cid)], '%s: dataset does not belong to its id' % name, case=nc)
      # the seeded stream must not be disturbed by other streams taken from the same dataset object meanwhile
      import fedjax
      it3 = fd.shuffled_clients(buffer_size=buf, seed=seed)
      inter = [next(it3)[0] for _ in range(min(2, 3 * n))]
      full_eval = [int(v) for b in fedjax.padded_batch_federated_data(fd, batch_size=2) for v in np.asarray(b['i'])[
          np.asarray(b['__mask__'])]]
      require(sorted(full_eval) == list(range(1, 1 + sum(sizes))), '%s: padded_batch_federated_data run while a shuffled '
              'stream is suspended is incomplete' % name, case=nc)
      half = fedjax.padded_batch_federated_data(fd, batch_size=1)
      next(half, None)  # an abandoned evaluation pass
      inter += [c for c, _ in itertools.islice(it3, 3 * n - len(inter))]
      require(inter == got, '%s: a seeded shuffled_clients stream interleaved with evaluation passes over the same dataset '
              'object differs from the undisturbed stream' % name, got, inter, case=nc)
      out[name] = got
    fds['sql']._connection.close()
  finally:
    shutil.rmtree(tmp, ignore_errors=True)
  return {'outcome': out, 'nontrivial': n > buf, 'evals': len(out)}


def srb_fd(case):
  """shuffle_repeat_batch_federated_data (infinite): B rows, conservation upper bound, reproducible."""
  import fedjax
  sizes, bs, cb, eb, seed = case['sizes'], case['B'], case['cbuf'], case['ebuf'], case['seed']
  total = sum(sizes)
  ids = [b'c%02d' % k for k in range(len(sizes))]
  dss = make_datasets(sizes, None)
  fd = fedjax.InMemoryFederatedData({cid: _canon_order(d.raw_examples) for cid, d in zip(ids, dss)})
  fd = fd.preprocess_batch(lambda x: {**x, 'z': x['i'] * 2 + 1})
  nb = math.ceil(3 * total / bs) + 2

  def run():
    it = fedjax.shuffle_repeat_batch_federated_data(fd, batch_size=bs, client_buffer_size=cb,
                                                    example_buffer_size=eb, seed=seed)
    return list(itertools.islice(it, nb))
  batches = run()
  require(len(batches) == nb, 'infinite stream ended', nb, len(batches))
  stream = []
  counts = {}
  for k, b in enumerate(batches):
    idx = np.asarray(b['i'])
    require(idx.shape == (bs,), 'batch %d does not have exactly batch_size rows' % k, bs, list(idx.shape))
    require(np.array_equal(np.asarray(b['z']), idx * 2 + 1), 'preprocessor not applied')
    for v in idx:
      v = int(v)
      require(1 <= v <= total, 'unknown example emitted', None, v)
      counts[v] = counts.get(v, 0) + 1
      stream.append(v)
      m = len(stream)
      # an emitted item is one of the first m + ebuf items of the input stream, which consists of consecutive
      # passes each holding every example once
      bound = math.ceil((m + eb) / total)
      require(counts[v] <= bound, 'example %d emitted %d times within the first %d outputs (duplication)'
              % (v, counts[v], m), '<= %d' % bound, counts[v])
  again = [int(v) for b in run() for v in np.asarray(b['i'])]
  require(again == stream, 'not reproducible for a fixed seed', stream, again)
  return {'outcome': stream, 'nontrivial': total % bs != 0}


class _OneShot:
  """Iterable that may be iterated only once."""

  def __init__(self, items):
    self._items, self._used = items, False

  def __iter__(self):
    if self._used:
      raise RuntimeError('base iterable iterated twice')
    self._used = True
    return iter(self._items)


def repeatable(case):
  from fedjax.core import federated_data as fdm
  kind, items = case['kind'], case['items']
  base = {
      'list': lambda: list(items), 'tuple': lambda: tuple(items), 'dict': lambda: {k: 1 for k in items},
      'str': lambda: ''.join(chr(97 + k) for k in items), 'bytes': lambda: bytes(items),
      'gen': lambda: (x for x in items), 'iter': lambda: iter(list(items)), 'map': lambda: map(lambda x: x + 1, items),
      'range': lambda: range(len(items)), 'oneshot': lambda: _OneShot(items), 'set': lambda: frozenset(items),
  }[kind]()
  it = fdm.RepeatableIterator(base)
  passes = [list(it) for _ in range(case.get('passes', 3))]
  for k, p in enumerate(passes[1:]):
    require(p == passes[0], 'pass %d of RepeatableIterator differs from the first pass' % (k + 2), passes[0], p)
  require(len(passes[0]) == len(set(items)) if kind in ('dict', 'set') else len(passes[0]) == len(items),
          'first pass has the wrong number of items', len(items), len(passes[0]))
  # interleaved partial pass: consume some, finish, replay
  it = fdm.RepeatableIterator(base if kind in ('list', 'tuple', 'dict', 'str', 'bytes', 'range', 'set') else
                              (x for x in passes[0]))
  first = []
  for x in it:
    first.append(x)
  require(list(it) == first and list(it) == first, 'replay after a completed pass differs')
  # passes that are NOT started by a fresh iter(): bare next() until StopIteration, several times
  base2 = (x for x in passes[0]) if kind not in ('list', 'tuple', 'dict', 'str', 'bytes', 'range', 'set') else base
  it = fdm.RepeatableIterator(base2)
  for pno in range(3):
    got = []
    while True:
      try:
        got.append(next(it))
      except StopIteration:
        break
    require(got == passes[0], 'pass %d driven by bare next() calls differs from the first pass' % (pno + 1), passes[0], got)
  # the documented usage: consumers created up front, consumed one after the other
  base3 = (x for x in passes[0]) if kind not in ('list', 'tuple', 'dict', 'str', 'bytes', 'range', 'set') else base
  it = fdm.RepeatableIterator(base3)
  m1, m2, m3 = map(lambda x: (1, x), it), map(lambda x: (2, x), it), map(lambda x: (3, x), it)
  l1, l2, l3 = list(m1), list(m2), list(m3)
  require([x for _, x in l1] == passes[0] and [x for _, x in l2] == passes[0] and [x for _, x in l3] == passes[0],
          'consumers created up front and consumed one after the other do not each see a full pass (docstring usage)',
          passes[0], [[x for _, x in l] for l in (l1, l2, l3)])
  return {'outcome': [repr(p) for p in passes], 'nontrivial': kind not in ('list', 'tuple') and len(items) > 0}


def stream_trace(arg):
  """Seeded client / example streams of the three implementations (parent and child interpreters)."""
  import fedjax
  tmp = tempfile.mkdtemp(prefix='c15o_')
  out = {}
  try:
    fds, ids = _three_fds(arg['sizes'], tmp)
    fds['sub_slice'] = fds['sub'].slice(start=ids[1])
    n = len(ids)
    for name, fd in fds.items():
      rec = {}
      for buf in (1, 2, n + 2):
        rec['shuffled_%d' % buf] = [bytes(c).hex() for c, _ in itertools.islice(fd.shuffled_clients(buffer_size=buf, seed=arg['seed']), 2 * n)]
        it = fedjax.shuffle_repeat_batch_federated_data(fd, batch_size=3, client_buffer_size=buf, example_buffer_size=2,
                                                        seed=arg['seed'])
        rec['srb_%d' % buf] = [np.asarray(b['i']).tolist() for b in itertools.islice(it, 6)]
      rec['padded'] = [np.asarray(b['i']).tolist() for b in fedjax.padded_batch_federated_data(fd, batch_size=3)]
      out[name] = rec
    fds['sql']._connection.close()
  finally:
    shutil.rmtree(tmp, ignore_errors=True)
  return out


def other_process(case):
  """'Reproducibly for a fixed seed' - also in another interpreter process (hash salt 1, 2, ...): the seeded client and
  example streams of every implementation are recomputed in child interpreters and compared with the parent's."""
  from mc import child
  arg = {'sizes': case['sizes'], 'seed': case['seed']}
  here = stream_trace(arg)
  evals = 0
  for hs in case['hashseeds']:
    there = child.call('mc.checks.c15_central_streams', 'stream_trace', arg, hs)
    for impl in here:
      for k in here[impl]:
        require(here[impl][k] == there[impl][k], '%s: stream %s differs between two interpreter processes (PYTHONHASHSEED=%s)'
                % (impl, k, hs), here[impl][k][:8], there[impl][k][:8], case=dict(case, hashseeds=[hs]))
        evals += 1
  return {'evals': evals, 'nontrivial': True, 'outcome': [case['sizes'], case['seed']]}


SUBS = {'other_process': other_process, 'padded_cds': padded_cds, 'padded_fd': padded_fd, 'mismatch': mismatch, 'buf_shuffle': buf_shuffle,
        'buf_shuffle_seeded': buf_shuffle_seeded, 'shuf_batch': shuf_batch, 'shuffled_clients': shuffled_clients,
        'srb_fd': srb_fd, 'repeatable': repeatable}


TIMEOUTS = {'repeatable': 15, 'buf_shuffle': 60, 'buf_shuffle_seeded': 60, 'mismatch': 30, 'padded_cds': 30,
            'padded_fd': 30, 'srb_fd': 60}


def size_seqs(alphabet, maxlen, minlen=1):
  for l in range(minlen, maxlen + 1):
    for s in itertools.product(alphabet, repeat=l):
      yield list(s)


def plan(ctx):
  th = ctx.tier == 'thorough'
  ctx.rule = ('padded: all client-size sequences (len<=%d over {0,1,2,3,4,5,7}) x batch_size 1..4 x buckets 1..3 x '
              'input kind; shuffles: every (initial permutation, randint answers) script of the scripted RNG for all '
              'stream lengths/buffer sizes in bounds (initial permutation: all for <=4 items, identity/reverse/rotation '
              'above); distinct = case tuple; non-trivial = contains an empty client or a size not divisible by '
              'batch_size / stream longer than the buffer' % (4 if th else 3))
  ctx.assumptions += ['a single trailing all-padding batch is tolerated (allowed by the statement)',
                      'for >4 buffered items only 3 initial permutations are scripted (all randint answers are)']
  alpha = [0, 1, 2, 3, 4, 5, 7]
  cases = []
  for sizes in size_seqs(alpha, 4 if th else 3):
    for bs in (1, 2, 3, 4):
      for buckets in (1, 2, 3):
        if bs == 1 and buckets > 1:
          continue
        kinds = ['list', 'gen', 'iter'] if (len(sizes) <= 2 or th) else ['gen']
        for kind in kinds:
          cases.append({'sizes': sizes, 'B': bs, 'buckets': buckets, 'input': kind, 'hp': len(sizes) == 1,
                        'seed': ctx.seed})
  from mc import routes as _routes
  dom = {'batch_size': [2, 4], 'num_batch_size_buckets': [1, 2, 3]}
  for eff in _routes.assignments(dom):
    for label, base, over in _routes.routes(eff, dom):
      if base is not None and over:
        cases.append({'sizes': [3, 0, 5], 'B': eff['batch_size'], 'buckets': eff['num_batch_size_buckets'], 'input': 'gen',
                      'route': [base, over], 'seed': ctx.seed})
  (ctx.pmap('padded_cds', cases, chunk=400) if th else ctx.run('padded_cds', cases, reverse_pass=True))
  ctx.pmap('other_process', [{'sizes': sz, 'seed': sd, 'hashseeds': [hs]} for sz, sd in (([2, 0, 3, 1, 4], 0), ([1, 1, 1, 2], 5))
                             for hs in ((1, 2, 3, 12345) if th else (1, 2))], chunk=1)
  ctx.run('padded_fd', [{'sizes': [1, 0, 2] * 43, 'B': 4, 'buckets': 2, 'seed': ctx.seed, 'impl': impl} for impl in ('mem', 'sql', 'sub')])
  ctx.run('padded_fd', [{'sizes': s, 'B': b, 'buckets': k, 'seed': ctx.seed}
                        for s in size_seqs(alpha if th else [0, 1, 2, 4, 5], 3) for b in (1, 2, 3, 4)
                        for k in ((1, 3) if b > 1 else (1,))])
  mm = []
  for sizes in size_seqs([0, 1, 3], 3, 2):
    for p in range(len(sizes)):
      for kind in ('pre', 'feat', 'feat_renamed', 'feat_missing', 'feat_case'):
        for fn in ('padded', 'shuffle'):
          mm.append({'sizes': sizes, 'pos': p, 'kind': kind, 'fn': fn, 'B': 2})
  ctx.run('mismatch', mm)
  ctx.run('buf_shuffle', [{'len': n, 'buffer': b, 'gen': g} for n in range(0, 8 if th else 7)
                          for b in range(1, 10 if th else 9) for g in (True, False)])
  ctx.run('buf_shuffle_seeded', [{'len': n, 'buffer': b, 'seeds': list(range(10))} for n in range(0, 9)
                                 for b in range(1, 11)])
  sb = []
  for sizes in size_seqs([0, 1, 2, 3] if th else [0, 1, 2, 4], 3):
    if sum(sizes) > 9:
      continue
    for bs in (1, 2, 3):
      for buf in (1, 2, 3, 5, 100) if th else (1, 2, 5, 100):
        draws = max(0, sum(sizes) - buf)
        if buf ** draws > (20000 if th else 1100):
          continue
        sb.append({'sizes': sizes, 'B': bs, 'buffer': buf})
  (ctx.pmap('shuf_batch', sb, chunk=16) if th else ctx.run('shuf_batch', sb))
  ctx.run('shuffled_clients', [{'sizes': s, 'buffer': b, 'seed': sd}
                               for s in ([1], [2, 0], [1, 2, 3], [0, 1, 2, 3, 1]) for b in (1, 2, 3, 10)
                               for sd in ((0, 1, 5) if th else (0, 5))] +
          # many clients (more than any page / prefetch size an implementation may use), inserted in reverse id order
          [{'sizes': [1, 0, 2] * n3, 'buffer': b, 'seed': 0} for n3 in ((22, 43, 70) if th else (22, 43)) for b in (1, 7, 500)])
  ctx.run('srb_fd', [{'sizes': s, 'B': b, 'cbuf': cb, 'ebuf': eb, 'seed': sd}
                     for s in ([3], [1, 2], [0, 4, 1], [2, 3, 1, 0]) for b in (1, 2, 3, 5) for cb in (1, 2, 10)
                     for eb in (1, 3, 100) for sd in ((0, 1, 2) if th else (0,))])
  ctx.run('repeatable', [{'kind': k, 'items': it} for k in ('list', 'tuple', 'dict', 'str', 'bytes', 'gen', 'iter',
                                                             'map', 'range', 'oneshot', 'set')
                         for it in ([], [3], [5, 1, 4], [2, 2, 7, 1])
                         if not (k in ('dict', 'set') and len(set(it)) != len(it))])

"""E-sched: controlled scheduler for real Python threads (stateless exploration, iterative
preemption bounding as in CHESS).

Exactly one thread runs at a time (baton = one semaphore per thread). Scheduling points are
  * explicit: body calls point() (op-level exploration), and/or
  * implicit: every `line` trace event whose frame belongs to one of `trace_files` (line-level).
The explorer enumerates schedules depth-first: run(prefix) replays `prefix` (a list of choice
indices into the canonical enabled list: running thread first if still enabled, then ascending ids)
and takes choice 0 afterwards; alternatives at every later point are explored if the number of
preemptions stays within the bound. A replay that diverges from the recorded enabled sets is a
hard harness error.
"""
import sys
import threading
import time

from mc.core import HarnessError


class _Abort(BaseException):
  pass


class Execution:
  def __init__(self):
    self.points = []      # per decision: (enabled tuple, chosen index, running id or None)
    self.choices = []
    self.results = {}     # thread id -> return value or ('EXC', repr)
    self.trace = []       # sequence of thread ids as they were scheduled


class Scheduler:
  def __init__(self, bodies, trace_files=(), prefix=(), timeout=20.0):
    self.bodies = bodies
    self.trace_files = tuple(trace_files)
    self.prefix = list(prefix)
    self.timeout = timeout
    self.n = len(bodies)
    self.sems = [threading.Semaphore(0) for _ in range(self.n)]
    self.main = threading.Semaphore(0)
    self.done = [False] * self.n
    self.ex = Execution()
    self.abort = False

  # ---- called from worker threads -----------------------------------------
  def point(self, tid):
    """Yield to the scheduler."""
    self.main.release()
    if not self.sems[tid].acquire(timeout=self.timeout):
      raise _Abort()
    if self.abort:
      raise _Abort()

  def _tracer(self, tid):
    files = self.trace_files

    def local(frame, event, arg):
      if event == 'line':
        self.point(tid)
      return local

    def glob(frame, event, arg):
      if event == 'call' and frame.f_code.co_filename.endswith(files):
        return local
      return None
    return glob

  def _run_thread(self, tid):
    if not self.sems[tid].acquire(timeout=self.timeout):
      return
    try:
      if self.abort:
        return
      if self.trace_files:
        sys.settrace(self._tracer(tid))
      try:
        self.ex.results[tid] = self.bodies[tid](lambda: self.point(tid))
      finally:
        sys.settrace(None)
    except _Abort:
      self.ex.results[tid] = ('ABORT',)
    except BaseException as e:  # pylint: disable=broad-except
      self.ex.results[tid] = ('EXC', type(e).__name__, str(e)[:200])
    finally:
      self.done[tid] = True
      self.main.release()

  # ---- main thread ---------------------------------------------------------
  def run(self):
    threads = [threading.Thread(target=self._run_thread, args=(i,), daemon=True) for i in range(self.n)]
    for t in threads:
      t.start()
    running = None
    step = 0
    try:
      while True:
        enabled = [i for i in range(self.n) if not self.done[i]]
        if not enabled:
          break
        if running is not None and running in enabled:
          enabled = [running] + [i for i in enabled if i != running]
        if step < len(self.prefix):
          c = self.prefix[step]
          if c >= len(enabled):
            raise HarnessError('schedule replay diverged: choice %d out of range %r at step %d' % (c, enabled, step))
        else:
          c = 0
        self.ex.points.append((tuple(enabled), c, running if (running is not None and not self.done[running]) else None))
        self.ex.choices.append(c)
        tid = enabled[c]
        self.ex.trace.append(tid)
        running = tid
        step += 1
        self.sems[tid].release()
        if not self.main.acquire(timeout=self.timeout):
          raise HarnessError('scheduled thread %d did not reach a scheduling point within %.0fs' % (tid, self.timeout))
    finally:
      self.abort = True
      for s in self.sems:
        s.release()
      for t in threads:
        t.join(timeout=self.timeout)
    return self.ex


def preemptions(ex, upto):
  """Number of preemptive switches among decisions [0, upto)."""
  k = 0
  for enabled, c, running in ex.points[:upto]:
    if running is not None and c != 0:
      k += 1
  return k


def explore(make_bodies, check, bound, trace_files=(), max_executions=None, time_budget_s=None):
  """DFS over schedules with at most `bound` preemptions. check(ex) inspects one complete execution.

  Returns dict(executions, max_points, capped).
  """
  stats = {'executions': 0, 'max_points': 0, 'capped': False, 'bound': bound}
  stack = [[]]
  t0 = time.time()
  while stack:
    prefix = stack.pop()
    ex = Scheduler(make_bodies(), trace_files, prefix).run()
    stats['executions'] += 1
    stats['max_points'] = max(stats['max_points'], len(ex.points))
    check(ex)
    if (max_executions and stats['executions'] >= max_executions) or (time_budget_s and time.time() - t0 > time_budget_s):
      stats['capped'] = True
      break
    for i in range(len(ex.points) - 1, len(prefix) - 1, -1):
      enabled, c, running = ex.points[i]
      cost = preemptions(ex, i)
      for alt in range(1, len(enabled)):
        extra = 1 if running is not None else 0
        if cost + extra > bound:
          continue
        stack.append(ex.choices[:i] + [alt])
  return stats

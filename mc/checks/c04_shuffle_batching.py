"""C04 - shuffled batching: without replacement, exact count, seeded.

E-enum over hyper-parameters and over *every answer sequence* of the shuffle RNG (scripted
RandomState seam) for small N; all seeds of a finite set through a recording seam for larger N.
"""
import itertools
import math

import numpy as np

from mc import core, seams
from mc.core import require, HarnessError
from mc.ref import batching as ref

PROPERTY = 'C04'
LEVEL = 'exploration'


# datasets obtained by slicing a larger one (ClientDataset.__getitem__): (size of the larger dataset, slices applied in turn)
VIAS = {
    'step2': (5, [(None, None, 2)]), 'step2_odd': (6, [(1, None, 2)]), 'step3': (7, [(None, None, 3)]),
    'rev': (5, [(None, None, -1)]), 'rev2': (5, [(None, None, -2)]), 'span3_step2': (4, [(1, 4, 2)]),
    'mid': (7, [(2, 6, None)]), 'tail': (6, [(-3, None, None)]), 'nested': (9, [(None, None, 2), (1, None, None)]),
    'nested_step': (11, [(1, None, 2), (None, None, 2)]), 'one_of_two': (2, [(None, None, 2)]),
    'one_of_three': (3, [(1, None, 3)]),
}


def via_len(via):
  big, slices = VIAS[via]
  pos = np.arange(big)
  for sl in slices:
    pos = pos[slice(*sl)]
  return len(pos)


def make_ds(n, chain, via=None, wide=None):
  import fedjax
  from fedjax.core import client_datasets as cds
  fns = []
  if chain == 'inplace':
    # a preprocessing fn that works in place on the arrays it is handed (the batch is the caller's to modify)
    def _ip(x):
      x['z'] = x['i'] * 2 + 1
      x['f'] *= 1          # in-place no-op on the array object itself ...
      x['f'] += 0
      return x
    fns = [_ip]
  elif chain:
    fns = [lambda x: {**x, 'z': x['i'] * 2 + 1}]
  if via:
    # the selected rows carry i = 0..n-1 in selection order, every other row of the larger dataset carries -1
    big, slices = VIAS[via]
    pos = np.arange(big)
    for sl in slices:
      pos = pos[slice(*sl)]
    bi = np.full(big, -1, np.int32)
    bi[pos] = np.arange(len(pos), dtype=np.int32)
    ds = fedjax.ClientDataset({'i': bi, 'f': (bi.astype(np.float32) * 0.5 + 1).reshape(big, 1)}, cds.BatchPreprocessor(fns))
    for sl in slices:
      ds = ds[slice(*sl)]
    n = len(pos)
    require(len(ds) == n, 'len() of a sliced dataset differs from the number of rows it holds', n, len(ds))
    held = np.asarray(ds.all_examples()['i']).tolist()
    require(held == list(range(n)), 'a sliced dataset does not hold the selected rows in order', list(range(n)), held)
    return ds, None
  raw = {'i': np.arange(n, dtype=np.int32), 'f': (np.arange(n, dtype=np.float32) * 0.5 + 1).reshape(n, 1)}
  if wide:
    # a heavy feature (images, embeddings): `wide` float32 values per example, megabytes per client
    raw['w'] = np.zeros((n, wide), np.float32)
    raw['w'][:, 0] = np.arange(n)
    raw['w'][:, -1] = -np.arange(n)
  return fedjax.ClientDataset(raw, cds.BatchPreprocessor(fns)), raw


def horizon(n, b, want):
  """Number of batches to take from a stream (finite count or a cut of an infinite stream)."""
  if want is not None:
    return want
  return 3 * math.ceil(n / b) + 2


def take(view, k, infinite):
  it = iter(view)
  if infinite:
    return list(itertools.islice(it, k))
  out = list(itertools.islice(it, k + 3))  # would expose extra batches
  return out


def check_stream(batches, n, b, chain, hp, want, skip):
  """Checks everything that does not depend on which permutation was drawn. Returns index stream."""
  if want is not None:
    require(len(batches) == want, 'number of batches differs from the documented count', want, len(batches))
  stream = []
  for k, batch in enumerate(batches):
    idx = np.asarray(batch['i'])
    require(idx.shape == (b,), 'batch %d does not have exactly batch_size rows' % k, b, list(idx.shape))
    require(np.asarray(batch['f']).shape == (b, 1) and
            np.array_equal(np.asarray(batch['f'])[:, 0], idx.astype(np.float32) * 0.5 + 1),
            'batch %d: features of one example are not kept together' % k)
    if 'w' in batch:
      wv = np.asarray(batch['w'])
      require(wv.shape[0] == b and np.array_equal(wv[:, 0], idx.astype(np.float32)) and np.array_equal(wv[:, -1], -idx.astype(np.float32)),
              'batch %d: the wide feature of one example is not kept together with its other features' % k)
    if chain:
      require('z' in batch and np.array_equal(np.asarray(batch['z']), idx * 2 + 1),
              'batch %d: preprocessor not applied to the drawn examples' % k)
    require(bool(np.all((idx >= 0) & (idx < n))), 'batch %d: index outside the dataset' % k)
    stream.extend(int(v) for v in idx)
  # windows of N
  full = len(stream) // n
  for w in range(full):
    win = stream[w * n:(w + 1) * n]
    require(sorted(win) == list(range(n)), 'window %d of the draw stream is not a permutation' % w,
            'a permutation of range(%d)' % n, win)
  tail = stream[full * n:]
  require(len(set(tail)) == len(tail), 'incomplete final window repeats an example', None, tail)
  # usage counts at every batch boundary
  counts = [0] * n
  for k in range(len(batches)):
    for v in stream[k * b:(k + 1) * b]:
      counts[v] += 1
    require(max(counts) - min(counts) <= 1, 'usage counts differ by more than one after batch %d' % k,
            None, counts)
  cover = math.ceil(n / b)
  if len(batches) >= cover:
    require(set(stream[:cover * b]) == set(range(n)), 'first ceil(N/B) batches do not cover the dataset')
  if skip:
    require(stream == [j % n for j in range(len(stream))], 'skip_shuffle stream is not the cyclic original order',
            [j % n for j in range(len(stream))], stream)
  return stream


def scripted(case):
  """One configuration; all scripts of permutations for the refills that can occur (or the one in case)."""
  from fedjax.core import client_datasets as cds
  n, b = case['N'], case['B']
  ep, st, drop, skip, chain = case['epochs'], case['steps'], case['drop'], case['skip'], case.get('chain', False)
  want = ref.shuffle_num_steps(n, b, ep, st, drop)
  k = horizon(n, b, want)
  refills = math.ceil(k * b / n) if k else 0
  max_ref = case.get('max_refills', 2)
  depth = 0 if skip else min(refills, max_ref)
  perms = list(itertools.permutations(range(n)))
  scripts = [tuple(case['script'])] if 'script' in case else itertools.product(perms, repeat=depth)
  ds, _ = make_ds(n, chain)
  hp = cds.ShuffleRepeatBatchHParams(batch_size=b, num_epochs=ep, num_steps=st, drop_remainder=drop,
                                     seed=case.get('seed', 3), skip_shuffle=skip)
  evals, outcomes = 0, set()
  for script in scripts:
    script = [list(p) for p in script]
    made = []

    def factory(seed=None, script=script, made=made):
      r = seams.ScriptedRandomState(perms=script)
      r.seed_arg = seed
      made.append(r)
      return r
    narrowed = dict(case, script=script)
    try:
      with seams.client_datasets_rng(factory):
        view = ds.shuffle_repeat_batch(hp)
        batches = take(view, k, want is None)
        again = take(view, k, want is None)
      if not made:
        # the implementation no longer obtains its generator through np.random.RandomState: the scripted enumeration
        # cannot drive it; reported as a cap (the unscripted sub-spaces still judge the behaviour)
        return {'evals': evals, 'cap': 'RandomState seam not reached: scripted enumeration skipped', 'nontrivial': False}
      require(all(m.seed_arg == hp.seed for m in made), 'RandomState not constructed from hparams.seed',
              hp.seed, [m.seed_arg for m in made])
      stream = check_stream(batches, n, b, chain, hp, want, skip)
      rng = made[0]
      windows = math.ceil(len(stream) / n) if stream else 0
      if skip:
        require(rng.shuffle_calls == 0, 'shuffle called although skip_shuffle=True', 0, rng.shuffle_calls)
      else:
        require(rng.shuffle_calls >= windows,
                'fewer re-shuffles than windows started (successive windows are not re-shuffled)',
                windows, rng.shuffle_calls)
        if rng.shuffle_calls == windows:
          # one shuffle per window: window w must be the scripted permutation applied to the buffer order
          buf = list(range(n))
          for w in range(windows):
            p = script[w] if w < len(script) else list(range(n))
            buf = [buf[s] for s in p]
            got = stream[w * n:(w + 1) * n]
            require(got == buf[:len(got)], 'window %d is not the RNG permutation applied to the buffer' % w,
                    buf[:len(got)], got)
      s2 = [int(v) for bt in again for v in np.asarray(bt['i'])]
      require(s2 == stream, 'second iteration of the same view differs', stream, s2)
    except core.Violation as v:
      v.case = v.case or narrowed
      raise
    evals += 1
    outcomes.add(core.digest(stream))
  return {'evals': evals, 'outcomes': sorted(outcomes), 'nontrivial': (n % b != 0 or b > n) and not skip,
          'stats': {'scripts': evals}}


class _UserCodeFailure(Exception):
  pass


def seeded(case):
  """Real RandomState through the recording seam; all seeds of the set."""
  from fedjax.core import client_datasets as cds
  n, b = case['N'], case['B']
  ep, st, drop, skip, chain = case['epochs'], case['steps'], case['drop'], case['skip'], case.get('chain', False)
  want = ref.shuffle_num_steps(n, b, ep, st, drop)
  k = horizon(n, b, want)
  ds, _ = make_ds(n, chain, case.get('via'), case.get('wide'))
  streams = {}
  evals = 0
  seam_missed = []
  for seed in case['seeds']:
    narrowed = dict(case, seeds=[seed])
    try:
      log = []
      # the seed may be any integer type (np.random.randint / array indexing hand out NumPy integers)
      seed_in = {'int': int, 'int64': np.int64, 'uint32': np.uint32, 'int32': np.int32}[case.get('seed_type', 'int')](seed)
      hp = cds.ShuffleRepeatBatchHParams(batch_size=b, num_epochs=ep, num_steps=st, drop_remainder=drop,
                                         seed=seed_in, skip_shuffle=skip)
      with seams.client_datasets_rng(lambda s=None, log=log: seams.RecordingRandomState(s, log)):
        view = ds.shuffle_repeat_batch(hp)
        if case.get('clone'):
          # dataset, hparams and view go through copy / deepcopy / pickle before use (datasets shipped to workers)
          import copy
          import pickle
          cl = {'copy': copy.copy, 'deepcopy': copy.deepcopy, 'pickle': lambda o: pickle.loads(pickle.dumps(o))}[case['clone']]
          view = cl(cl(ds).shuffle_repeat_batch(cl(hp)))
        batches = take(view, k, want is None)
      stream = check_stream(batches, n, b, chain, hp, want, skip)
      seeds_used = [e[1] for e in log if e[0] == 'seed']
      if seeds_used:  # seam reached (otherwise only the seam-free assertions below apply)
        require(seeds_used == [seed], 'RandomState not constructed from hparams.seed', [seed], seeds_used)
        shuffles = sum(1 for e in log if e[0] == 'shuffle')
        windows = math.ceil(len(stream) / n) if stream else 0
        require(shuffles == 0 if skip else shuffles >= windows, 'fewer re-shuffles than windows started',
                0 if skip else windows, shuffles)
      else:
        seam_missed.append(1)
      # unpatched: repeated iteration and a separately built view agree
      it0 = iter(view)
      next(it0, None)  # an abandoned iteration of the same view must not influence the next ones
      del it0
      view2 = ds.shuffle_repeat_batch(batch_size=b, num_epochs=ep, num_steps=st, drop_remainder=drop, seed=seed,
                                      skip_shuffle=skip)   # plain Python int: the same stream as any integer type
      view3 = ds.shuffle_repeat_batch(batch_size=b, num_epochs=ep, num_steps=st, drop_remainder=drop, seed=seed_in,
                                      skip_shuffle=skip)
      it3 = iter(view3)
      next(it3, None)  # the view's very first iteration is abandoned
      del it3
      for nm, v in (('second iteration', view), ('separately built view with the same seed', view2),
                    ('view whose first iteration was abandoned', view3)):
        s2 = [int(x) for bt in take(v, k, want is None) for x in np.asarray(bt['i'])]
        require(s2 == stream, nm + ' gives different batches for a fixed seed', stream, s2)
      if case.get('flaky'):
        # user code (a preprocessing fn) fails once in the middle of a pass: the next pass over the same view is the seeded
        # sequence again, from the start
        from fedjax.core import client_datasets as _cds
        for fail_at in sorted({0, max(0, len(batches) // 2), max(0, len(batches) - 1)}):
          calls = {'n': 0, 'armed': True}

          def flaky(x, calls=calls, fail_at=fail_at):
            calls['n'] += 1
            if calls['armed'] and calls['n'] == fail_at + 1:
              calls['armed'] = False
              raise _UserCodeFailure()
            return x
          ds_f = type(ds)(ds.raw_examples, _cds.BatchPreprocessor([flaky]))
          view_f = ds_f.shuffle_repeat_batch(hp)
          try:
            for _ in take(view_f, k, want is None):
              pass
            if len(batches) > 0:
              raise core.Violation('an exception raised by a preprocessing fn was swallowed by the batch iterator')
          except _UserCodeFailure:
            pass
          s3 = [int(x) for bt in take(view_f, k, want is None) for x in np.asarray(bt['i'])]
          require(s3 == stream, 'after a pass that died in a preprocessing fn (call %d) the same seeded view yields other batches' % (fail_at + 1),
                  stream, s3)
      streams[seed] = stream
    except core.Violation as v:
      v.case = v.case or narrowed
      raise
    evals += 1
  info = {'evals': evals, 'outcomes': [core.digest(s) for s in streams.values()],
          'nontrivial': n % b != 0 or b > n}
  if seam_missed:
    info['cap'] = 'RandomState recording seam not reached: call-count assertions skipped'
  # non-triviality of the shuffle over the seed set (deterministic given the seeds)
  if not skip and n >= 5 and len(case['seeds']) >= 4:
    long = [s for s in streams.values() if len(s) >= n]
    if long:
      require(any(s[:n] != list(range(n)) for s in long), 'no seed shuffles the first window')
      require(len({tuple(s[:n]) for s in long}) > 1, 'all seeds give the same order')
    long2 = [s for s in streams.values() if len(s) >= 2 * n]
    if long2:
      require(any(s[:n] != s[n:2 * n] for s in long2), 'successive windows are never re-shuffled')
  return info


def batches_are_private(case):
  """The batches handed out belong to the consumer: overwriting them in place (normalising, zeroing) must not change the
  dataset, later batches, a second pass or another view - with and without shuffling, wrapping and non-wrapping batches."""
  n, b, ep, skip = case['N'], case['B'], case['epochs'], case['skip']
  ds, raw = make_ds(n, False)
  snap = {k: v.copy() for k, v in raw.items()}
  kw = dict(batch_size=b, num_epochs=ep, seed=case.get('seed', 4), skip_shuffle=skip)
  clean = [np.asarray(x['i']).tolist() for x in ds.shuffle_repeat_batch(**kw)]
  view = ds.shuffle_repeat_batch(**kw)
  seen = []
  for bt in view:
    seen.append(np.asarray(bt['i']).tolist())
    for k in bt:
      arr = bt[k]
      if isinstance(arr, np.ndarray) and arr.flags.writeable:
        arr[...] = -7            # the consumer reuses the batch buffers
  require(seen == clean, 'overwriting the batches already consumed changed the batches that followed', clean, seen, case=case)
  for k in snap:
    require(np.array_equal(np.asarray(ds.raw_examples[k]), snap[k]), 'overwriting a batch in place changed the dataset (feature %r): '
            'batches alias the dataset\'s arrays' % k, snap[k].tolist(), np.asarray(ds.raw_examples[k]).tolist(), case=case)
  again = [np.asarray(x['i']).tolist() for x in view]
  require(again == clean, 'a second pass over the view differs after the first pass\'s batches were overwritten', clean, again, case=case)
  return {'evals': 1, 'nontrivial': True, 'outcome': [n, b, ep, skip]}


def interleave(case):
  """Seeded views are independent streams: iterating two of them in lock-step (or nesting one inside the other, or
  drawing from numpy's global generator in between) must give each exactly its stand-alone batches. No seam is used."""
  n1, n2, b = case['N1'], case['N2'], case['B']
  ds1, _ = make_ds(n1, False)
  ds2, _ = make_ds(n2, True)
  kw1 = dict(batch_size=b, num_epochs=case['epochs'], seed=case['seed1'])
  kw2 = dict(batch_size=max(1, b - 1), num_epochs=case['epochs'], seed=case['seed2'])
  alone1 = [np.asarray(x['i']).tolist() for x in ds1.shuffle_repeat_batch(**kw1)]
  alone2 = [np.asarray(x['i']).tolist() for x in ds2.shuffle_repeat_batch(**kw2)]
  z = list(itertools.zip_longest(ds1.shuffle_repeat_batch(**kw1), ds2.shuffle_repeat_batch(**kw2)))
  got1 = [np.asarray(a['i']).tolist() for a, _ in z if a is not None]
  got2 = [np.asarray(c['i']).tolist() for _, c in z if c is not None]
  require(got1 == alone1 and got2 == alone2, 'two seeded views iterated in lock-step do not reproduce their stand-alone '
          'batches (shared generator state)', [alone1, alone2], [got1, got2])
  # same seed: two iterators of ONE view, and two clients batched with the same seeded hparams
  v = ds1.shuffle_repeat_batch(**kw1)
  zz = list(zip(v, v))
  require([np.asarray(a['i']).tolist() for a, _ in zz] == alone1 and [np.asarray(c['i']).tolist() for _, c in zz] == alone1,
          'two interleaved iterators of one seeded view do not both reproduce its stand-alone batches', alone1,
          [[np.asarray(a['i']).tolist(), np.asarray(c['i']).tolist()] for a, c in zz])
  kw2s = dict(kw2, seed=case['seed1'])
  alone2s = [np.asarray(x['i']).tolist() for x in ds2.shuffle_repeat_batch(**kw2s)]
  it1 = iter(ds1.shuffle_repeat_batch(**kw1))
  head = [np.asarray(next(it1)['i']).tolist()] if alone1 else []
  mid = [np.asarray(x['i']).tolist() for x in ds2.shuffle_repeat_batch(**kw2s)]
  rest = [np.asarray(x['i']).tolist() for x in it1]
  require(mid == alone2s and head + rest == alone1, 'a seeded stream suspended while another stream WITH THE SAME SEED ran '
          'does not reproduce its stand-alone batches', [alone1, alone2s], [head + rest, mid])
  nested = []
  for a in ds1.shuffle_repeat_batch(**kw1):
    nested.append(np.asarray(a['i']).tolist())
    inner = [np.asarray(c['i']).tolist() for c in ds2.shuffle_repeat_batch(**kw2)]
    require(inner == alone2, 'a seeded view iterated inside the loop over another one differs from its stand-alone batches',
            alone2, inner)
    np.random.seed(len(nested))
    np.random.rand(3)
  require(nested == alone1, 'a seeded stream is disturbed by other streams / numpy\'s global generator used between its '
          'batches', alone1, nested)
  return {'evals': 3, 'nontrivial': case['epochs'] > 1, 'outcome': [alone1[:2], alone2[:2]]}


ROUTE_DOMAIN = {'batch_size': [2, 3], 'num_epochs': [None, 1, 2], 'num_steps': [None, 1, 4],
                'drop_remainder': [False, True], 'seed': [3, 5], 'skip_shuffle': [False, True]}


def routes_case(case):
  """One effective hyper-parameter assignment expressed along every invocation route (kwargs / object / object +
  keyword overrides, including overrides to None and back to a default): same seeded batches as the plain object route
  (which 'seeded' judges), and the documented count."""
  from fedjax.core import client_datasets as cds
  from mc import routes
  n, eff = case['N'], case['effective']
  ds, _ = make_ds(n, False)
  want_n = ref.shuffle_num_steps(n, eff['batch_size'], eff['num_epochs'], eff['num_steps'], eff['drop_remainder'])
  k = horizon(n, eff['batch_size'], want_n)
  want = [np.asarray(b['i']).tolist() for b in take(ds.shuffle_repeat_batch(cds.ShuffleRepeatBatchHParams(**eff)), k,
                                                    want_n is None)]
  if want_n is not None:
    require(len(want) == want_n, 'object route: number of batches differs from the documented count', want_n, len(want))
  evals = 0
  for label, base, over in routes.routes(eff, ROUTE_DOMAIN, max_diff=case.get('max_diff')):
    if 'route' in case and case['route'] != [label, base, over]:
      continue
    got = [np.asarray(b['i']).tolist() for b in take(routes.invoke(ds.shuffle_repeat_batch, cds.ShuffleRepeatBatchHParams,
                                                                   base, over), k, want_n is None)]
    require(got == want, 'invocation route %s (base %r, overrides %r) does not give the batches of the effective '
            'hyper-parameters' % (label, base, over), want[:6], got[:6], case=dict(case, route=[label, base, over]))
    evals += 1
  return {'evals': evals, 'nontrivial': True, 'outcome': [len(want), want[:2]]}


def counts(case):
  """Only the NUMBER of batches and their row counts, for a whole block of (N, batch_size, num_epochs, drop_remainder)
  combinations far beyond the sizes whose draw streams are examined: exact integer arithmetic is the reference."""
  evals = 0
  outs = set()
  for n in range(case['N_lo'], case['N_hi']):
    ds, _ = make_ds(n, False)
    for b in case['Bs']:
      for ep in case['epochs']:
        for drop in (False, True):
          want = ref.shuffle_num_steps(n, b, ep, None, drop)
          got = 0
          for bt in ds.shuffle_repeat_batch(batch_size=b, num_epochs=ep, drop_remainder=drop, seed=1):
            got += 1
            if got > want + 2 or len(np.asarray(bt['i'])) != b:
              break
          require(got == want, 'number of batches differs from the documented count', want, got,
                  case=dict(case, N_lo=n, N_hi=n + 1, Bs=[b], epochs=[ep], drop=drop))
          evals += 1
          outs.add(want)
  return {'evals': evals, 'nontrivial': True, 'outcome': [case['N_lo'], case['N_hi'], len(outs)]}


def seeded_streams(arg):
  """Index streams of seeded views for a list of configurations (parent and child interpreters)."""
  out = []
  for n, b, ep, st, drop, seed, via in arg['configs']:
    ds, _ = make_ds(n, False, via)
    want = ref.shuffle_num_steps(len(ds), b, ep, st, drop)
    k = horizon(len(ds), b, want)
    v = ds.shuffle_repeat_batch(batch_size=b, num_epochs=ep, num_steps=st, drop_remainder=drop, seed=seed)
    out.append([int(x) for bt in take(v, k, want is None) for x in np.asarray(bt['i'])])
  return out


def other_process(case):
  """'With a fixed seed repeated iteration yields identical batches' - also in another interpreter process (a resumed
  experiment): every listed PYTHONHASHSEED runs the same seeded configurations."""
  from mc import child
  here = seeded_streams({'configs': case['configs']})
  evals = 0
  for hs in case['hashseeds']:
    there = child.call('mc.checks.c04_shuffle_batching', 'seeded_streams', {'configs': case['configs']}, hs)
    for cfg, a, b in zip(case['configs'], here, there):
      require(a == b, 'the seeded batch stream differs between two interpreter processes (PYTHONHASHSEED=%s)' % hs, a[:12], b[:12],
              case=dict(case, configs=[cfg], hashseeds=[hs]))
      evals += 1
  return {'evals': evals, 'nontrivial': True, 'outcome': [len(case['configs']), case['hashseeds']]}


SUBS = {'batches_are_private': batches_are_private, 'counts': counts, 'other_process': other_process, 'interleave': interleave, 'scripted': scripted, 'seeded': seeded, 'routes': routes_case}


def configs(ns, bs, epochs, steps):
  for n, b, ep, st, drop in itertools.product(ns, bs, epochs, steps, (False, True)):
    if ep is None and st is None and drop:
      continue
    yield n, b, ep, st, drop


def plan(ctx):
  th = ctx.tier == 'thorough'
  epochs = [None, 0, 1, 2, 3]
  steps = [None, 0, 1, 2, 5, 9]
  ctx.rule = ('scripted: every (N<=4, B, num_epochs, num_steps, drop_remainder, skip_shuffle) x every sequence of '
              'permutations the RNG can answer for the first refills; seeded: N<=8 x B<=10 x all hparams x seed set '
              'with the real RandomState behind a recording seam; distinct = configuration tuple; non-trivial = '
              'N mod B != 0 or B > N (a batch straddles a refill); counts: batch counts for N 1..100 x 7 batch sizes x 5 epoch counts x drop_remainder; routes: every effective assignment over a '
              '2x3x3x2x2x2 value domain x every (base object, keyword overrides) pair expressing it (quick: bases '
              'differing in at most 2 fields)')
  ctx.assumptions += ['infinite streams (num_epochs=None and num_steps=None) are cut after 3*ceil(N/B)+2 batches',
                      'RandomState.shuffle answers some permutation (all of them are enumerated for N<=4)']
  ctx.run('interleave', [{'N1': n1, 'N2': n2, 'B': b, 'epochs': ep, 'seed1': s1, 'seed2': s1 + 1}
                         for n1 in (3, 5) for n2 in (2, 4) for b in (2, 3) for ep in (1, 2, 3) for s1 in (0, 7)])
  sc = []
  for n, b, ep, st, drop in configs(range(1, 5), range(1, 11) if th else [1, 2, 3, 4, 5, 7, 10], epochs, steps):
    max_ref = 3 if (n <= 3 and th) else 2
    if n == 4 and not th and b > 5:
      max_ref = 1
    sc.append({'N': n, 'B': b, 'epochs': ep, 'steps': st, 'drop': drop, 'skip': False, 'max_refills': max_ref,
               'chain': (n + b) % 2 == 0})
  if th:
    for n, b, ep, st, drop in configs([5], [1, 2, 3, 4, 5, 7], epochs, steps):
      sc.append({'N': n, 'B': b, 'epochs': ep, 'steps': st, 'drop': drop, 'skip': False, 'max_refills': 1, 'chain': False})
  for n, b, ep, st, drop in configs(range(1, 9), range(1, 11), epochs, steps):
    sc.append({'N': n, 'B': b, 'epochs': ep, 'steps': st, 'drop': drop, 'skip': True})
  ctx.pmap('scripted', sc, chunk=64)
  seeds = list(range(32)) if th else list(range(5))
  se = []
  for n, b, ep, st, drop in configs(range(1, 13) if th else range(1, 9), range(1, 14) if th else range(1, 11),
                                    epochs, steps):
    for skip in (False, True):
      se.append({'N': n, 'B': b, 'epochs': ep, 'steps': st, 'drop': drop, 'skip': skip, 'seeds': seeds,
                 'chain': n % 2 == 1})
  # seeds at the limits of what RandomState accepts
  for n, b in ((5, 2), (7, 3)):
    se.append({'N': n, 'B': b, 'epochs': 2, 'steps': None, 'drop': False, 'skip': False, 'seeds': [0, 2 ** 31 - 1, 2 ** 31, 2 ** 32 - 1],
               'chain': False})
  for cln in ('copy', 'deepcopy', 'pickle'):
    for n, b in ((5, 2), (4, 3), (1, 2)):
      for ep, st in ((2, None), (None, 5), (1, 1)):
        se.append({'N': n, 'B': b, 'epochs': ep, 'steps': st, 'drop': False, 'skip': False, 'seeds': seeds[:2], 'chain': False,
                   'clone': cln})
  # large clients from which only a few batches are drawn (a partial shuffle would do), every draw distinct
  for n in ((1000, 2000, 5000) if th else (1024, 2000)):
    for b, st, ep in ((32, 8, None), (32, 8, 1), (7, 3, None), (64, 1, 2)):
      se.append({'N': n, 'B': b, 'epochs': ep, 'steps': st, 'drop': False, 'skip': False, 'seeds': seeds[:3], 'chain': False})
  for n, b in ((5, 2), (4, 3), (1, 2), (7, 7), (3, 8)):
    for ep, st in ((2, None), (None, 5), (3, 4), (1, None)):
      for skip in (False, True):
        se.append({'N': n, 'B': b, 'epochs': ep, 'steps': st, 'drop': False, 'skip': skip, 'seeds': seeds[:2], 'chain': False, 'flaky': True})
  # heavy clients (1.25 MiB .. 17 MiB of features) with batches that straddle the epoch boundary
  for wide in ((65536, 600000) if th else (65536, 600000)):
    for n, b in ((5, 2), (7, 3), (5, 8)):
      for ep, st in ((2, None), (None, 5), (3, 4)):
        for skip in (False, True):
          if wide > 100000 and (skip or (n, b) != (7, 3)):
            continue
          se.append({'N': n, 'B': b, 'epochs': ep, 'steps': st, 'drop': False, 'skip': skip, 'seeds': seeds[:2], 'chain': False,
                     'wide': wide})
  # NumPy-typed seeds, and dataset sizes around the 2**15 / 2**16 boundaries of narrow index types
  for stype in ('int64', 'uint32', 'int32'):
    for n, b in ((5, 2), (7, 3)):
      for ep, st in ((2, None), (None, 5)):
        se.append({'N': n, 'B': b, 'epochs': ep, 'steps': st, 'drop': False, 'skip': False, 'seeds': seeds[:3], 'chain': False,
                   'seed_type': stype})
  for n in ((32767, 32769, 40000, 65535, 65537) if th else (32769, 65535)):
    for skip in (False, True):
      se.append({'N': n, 'B': 4096, 'epochs': 2, 'steps': None, 'drop': False, 'skip': skip, 'seeds': seeds[:1], 'chain': False})
  # the same streams over datasets that were obtained by slicing a larger dataset (stepped, reversed, nested slices)
  for via in VIAS:
    for _, b, ep, st, drop in configs([0], [1, 2, 3, 4], [None, 1, 2], [None, 2, 5] if th else [None, 5], ):
      for skip in (False, True):
        se.append({'N': via_len(via), 'via': via, 'B': b, 'epochs': ep, 'steps': st, 'drop': drop, 'skip': skip,
                   'seeds': seeds[:3], 'chain': b % 2 == 1})
  ctx.pmap('seeded', se, chunk=64)
  ctx.run('batches_are_private', [{'N': n, 'B': b, 'epochs': ep, 'skip': sk} for n in (1, 4, 5, 8) for b in (1, 2, 3, 8, 11)
                                  for ep in (1, 3) for sk in (False, True)])
  ctx.pmap('counts', [{'N_lo': lo, 'N_hi': lo + 10, 'Bs': [1, 2, 3, 5, 7, 9, 16], 'epochs': [1, 2, 3, 5, 9]}
                      for lo in range(1, 121 if th else 101, 10)], chunk=1)
  cfgs = [[n, b, ep, st, False, seed, via] for n, via in ((5, None), (8, None), (3, 'step2'), (3, 'rev2'))
          for b in (2, 3) for ep, st in ((2, None), (None, 5)) for seed in (0, 3)]
  ctx.pmap('other_process', [{'configs': cfgs, 'hashseeds': [hs]} for hs in ((1, 2, 3, 12345) if th else (1, 2))], chunk=1)
  from mc import routes as _routes
  ctx.pmap('routes', [{'N': n, 'effective': eff, 'max_diff': None if th else 2} for n in ((4, 5) if th else (5,))
                      for eff in _routes.assignments(ROUTE_DOMAIN)
                      if not (eff['num_epochs'] is None and eff['num_steps'] is None and eff['drop_remainder'])], chunk=8)
  ctx.extra['bounds'] = {'scripted_N': [1, 4], 'seeded_N': [1, 12 if th else 8], 'seeds': len(seeds),
                         'epochs': [str(e) for e in epochs], 'steps': [str(s) for s in steps]}

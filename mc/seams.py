"""Seams: every source of nondeterminism is owned by replacing a *module attribute* for the duration
of one execution (restored in finally). Nothing here edits /repo."""
import contextlib
import types

import numpy as np


class ScriptExhausted(Exception):
  pass


class ScriptedRandomState:
  """Stands in for np.random.RandomState: answers come from a script.

  shuffle(buf): applies the next scripted permutation p (buf <- buf[p]); identity when the script
  has no more permutations (the number of calls is still counted).
  randint(n): next scripted integer (must be < n).
  """

  def __init__(self, perms=(), ints=(), log=None, strict=False):
    self.perms = list(perms)
    self.ints = list(ints)
    self.shuffle_calls = 0
    self.randint_calls = 0
    self.log = log if log is not None else []
    self.strict = strict

  def shuffle(self, buf):
    k = self.shuffle_calls
    self.shuffle_calls += 1
    self.log.append(('shuffle', len(buf)))
    if k < len(self.perms) and self.perms[k] is not None:
      p = list(self.perms[k])
      if len(p) != len(buf):
        raise ScriptExhausted('permutation of wrong length %d for buffer %d' % (len(p), len(buf)))
      old = list(buf)
      for j, src in enumerate(p):
        buf[j] = old[src]
    elif self.strict and k >= len(self.perms):
      raise ScriptExhausted('shuffle script exhausted')

  def randint(self, n):
    k = self.randint_calls
    self.randint_calls += 1
    self.log.append(('randint', n))
    if k < len(self.ints):
      v = self.ints[k]
      if not 0 <= v < n:
        raise ScriptExhausted('scripted randint %d out of range %d' % (v, n))
      return v
    if self.strict:
      raise ScriptExhausted('randint script exhausted')
    return 0


class RecordingRandomState:
  """Wraps a real RandomState and counts calls."""

  def __init__(self, seed, log):
    self._r = np.random.RandomState(seed)
    self._log = log
    log.append(('seed', seed))

  def shuffle(self, buf):
    self._log.append(('shuffle', len(buf)))
    return self._r.shuffle(buf)

  def randint(self, *a, **k):
    self._log.append(('randint',) + a)
    return self._r.randint(*a, **k)

  def __getattr__(self, name):
    return getattr(self._r, name)


class _Proxy:
  """Attribute proxy: overrides first, then the wrapped object."""

  def __init__(self, base, **over):
    object.__setattr__(self, '_base', base)
    object.__setattr__(self, '_over', over)

  def __getattr__(self, name):
    over = object.__getattribute__(self, '_over')
    if name in over:
      return over[name]
    return getattr(object.__getattribute__(self, '_base'), name)


def np_proxy(random_state_factory=None, **random_over):
  over = dict(random_over)
  if random_state_factory is not None:
    over['RandomState'] = random_state_factory
  return _Proxy(np, random=_Proxy(np.random, **over))


@contextlib.contextmanager
def patched(module, **attrs):
  """Temporarily replaces attributes of a module/object."""
  missing = object()
  old = {k: getattr(module, k, missing) for k in attrs}
  for k in attrs:
    if old[k] is missing:
      raise RuntimeError('seam target %s.%s does not exist' % (getattr(module, '__name__', module), k))
  try:
    for k, v in attrs.items():
      setattr(module, k, v)
    yield
  finally:
    for k, v in old.items():
      setattr(module, k, v)


@contextlib.contextmanager
def client_datasets_rng(factory):
  """fedjax.core.client_datasets.np.random.RandomState -> factory(seed)."""
  from fedjax.core import client_datasets
  if not hasattr(client_datasets, 'np'):
    raise RuntimeError('seam: fedjax.core.client_datasets has no attribute np')
  with patched(client_datasets, np=np_proxy(factory)):
    yield

"""Reference definitions of the built-in metrics, transcribed from the docstrings (float64 NumPy).

A metric *spec* is a JSON-able dict {'name': ..., **constructor kwargs}; build(spec) makes the
fedjax object, ref_stat(spec, example, pred) returns the reference statistic as a tuple of arrays:
('mean', accum, weight) or ('sum', accum).
"""
import numpy as np

NEG_INF = float('-inf')


def build(spec):
  from fedjax.core import metrics
  s = dict(spec)
  name = s.pop('name')
  if 'logits_mask' in s and s['logits_mask'] is not None:
    s['logits_mask'] = tuple(NEG_INF if v in ('-inf', NEG_INF) else float(v) for v in s['logits_mask'])
  for k in ('masked_target_values', 'oov_target_values'):
    if k in s:
      s[k] = tuple(s[k])
  if name == 'PerDomainMetric':
    extra = {'domain_id_key': s['domain_id_key']} if s.get('domain_id_key') is not None else {}
    return metrics.PerDomainMetric(build(s['base']), s['num_domains'], **extra)
  return getattr(metrics, name)(**s)


def _log_softmax(p):
  p = np.asarray(p, np.float64)
  m = np.max(p, axis=-1, keepdims=True)
  z = p - m
  return z - np.log(np.sum(np.exp(z), axis=-1, keepdims=True))


def _ce(target, pred):
  lp = _log_softmax(pred)
  return -np.take_along_axis(lp, np.asarray(target)[..., None], axis=-1)[..., 0]


def _rank_order(scores):
  """Class indices by descending score, ties broken toward the lowest index."""
  scores = list(scores)
  return sorted(range(len(scores)), key=lambda i: (-scores[i], i))


def _argmax(scores):
  return _rank_order(scores)[0]


def _masked(pred, logits_mask):
  pred = np.asarray(pred, np.float64)
  if logits_mask is None:
    return pred
  lm = np.array([NEG_INF if v in ('-inf', NEG_INF) else float(v) for v in logits_mask], np.float64)
  return pred + lm


def _weights(target, masked_values):
  return np.array([0.0 if int(t) in set(masked_values) else 1.0 for t in np.atleast_1d(target)])


def _mean(accum, weight):
  accum = np.asarray(accum, np.float64)
  weight = np.maximum(0, np.asarray(weight, np.float64))
  accum = np.where(weight == 0, 0.0, accum)
  return ('mean', accum, weight)


def ref_stat(spec, example, pred):
  name = spec['name']
  mv = spec.get('masked_target_values', (0,))
  if name == 'PerDomainMetric':
    base = ref_stat(spec['base'], example, pred)
    zero = ref_zero(spec['base'], example, pred)
    d = int(example['domain_id'])
    nd = spec['num_domains']
    out = [base[0]]
    for b, z in zip(base[1:], zero[1:]):
      rows = [np.asarray(b) if k == d else np.zeros_like(np.asarray(b)) for k in range(nd)]
      out.append(np.stack(rows))
    return tuple(out)
  y = example['y']
  if name == 'CrossEntropyLoss':
    return _mean(_ce(np.asarray(y), np.asarray(pred, np.float64)), 1.0)
  if name == 'Accuracy':
    return _mean(float(int(y) == _argmax(pred)), 1.0)
  if name == 'TopKAccuracy':
    k = spec['k']
    top = _rank_order(pred)[:k] if k >= 1 else []
    return _mean(float(int(y) in top), 1.0)
  if name == 'ConfusionMatrix':
    c = spec['num_classes']
    m = np.zeros((c, c))
    m[int(y), _argmax(pred)] = 1
    return ('sum', m)
  # sequence metrics
  w = _weights(y, mv)
  per_pos = spec.get('per_position', False)
  if name == 'SequenceTokenCrossEntropyLoss':
    loss = _ce(np.asarray(y), np.asarray(pred, np.float64))
    return _mean(loss * w, w) if per_pos else _mean(np.sum(loss * w), np.sum(w))
  if name == 'SequenceCrossEntropyLoss':
    loss = _ce(np.asarray(y), np.asarray(pred, np.float64))
    return _mean(np.sum(loss * w), float(np.any(w)))
  if name in ('SequenceTokenAccuracy', 'SequenceTokenTopKAccuracy'):
    p = _masked(pred, spec.get('logits_mask'))
    if name == 'SequenceTokenAccuracy':
      correct = np.array([float(int(t) == _argmax(row)) for t, row in zip(y, p)])
    else:
      k = spec['k']
      correct = np.array([float(int(t) in (_rank_order(row)[:k] if k >= 1 else [])) for t, row in zip(y, p)])
    return _mean(correct * w, w) if per_pos else _mean(np.sum(correct * w), np.sum(w))
  if name == 'SequenceTokenCount':
    return ('sum', np.sum(w))
  if name == 'SequenceCount':
    return ('sum', float(np.any(w)))
  if name == 'SequenceTruncationRate':
    not_empty = float(np.any(w))
    trunc = float(all(int(t) != spec['eos_target_value'] for t in y))
    return _mean(trunc * not_empty, not_empty)
  if name == 'SequenceTokenOOVRate':
    oov = np.array([float(int(t) in set(spec['oov_target_values'])) for t in y])
    return _mean(oov * w, w) if per_pos else _mean(np.sum(oov * w), np.sum(w))
  if name == 'SequenceLength':
    return _mean(np.sum(w), float(np.any(w)))
  raise KeyError(name)


def ref_zero(spec, example, pred):
  st = ref_stat(spec, example, pred)
  return (st[0],) + tuple(np.zeros_like(np.asarray(a, np.float64)) for a in st[1:])


def ref_merge(a, b):
  assert a[0] == b[0]
  if a[0] == 'sum':
    return ('sum', np.asarray(a[1]) + np.asarray(b[1]))
  return _mean(np.asarray(a[1]) + np.asarray(b[1]), np.asarray(a[2]) + np.asarray(b[2]))


def ref_result(st):
  if st[0] == 'sum':
    return np.asarray(st[1], np.float64)
  acc, w = np.asarray(st[1], np.float64), np.asarray(st[2], np.float64)
  return np.where(w == 0, 0.0, acc / np.where(w == 0, 1.0, w))


def stat_arrays(stat):
  """fedjax Stat -> tuple of numpy arrays in the same layout as ref_stat."""
  from fedjax.core import metrics
  if isinstance(stat, metrics.MeanStat):
    return ('mean', np.asarray(stat.accum), np.asarray(stat.weight))
  if isinstance(stat, metrics.SumStat):
    return ('sum', np.asarray(stat.accum))
  raise TypeError(type(stat))

import numpy as np, jax, jax.numpy as jnp
import fedjax
from fedjax.algorithms import fed_avg, fed_prox, hyp_cluster, mime_lite, mime, apfl
from fedjax.core import client_datasets as cds, tree_util
orig_clip=jnp.clip
apfl.jnp = type('J',(),{'__getattr__':lambda s,k: getattr(jnp,k)})()
class JP:
    def __getattr__(self,k): return getattr(jnp,k)
    def clip(self, x, a_min=None, a_max=None): return orig_clip(x, a_min, a_max)
apfl.jnp = JP()
def loss_rng(params, batch, rng):
    u = jax.random.uniform(rng, ()) + 0.5
    return jnp.square(batch['x'] @ params['w'] + params['b'] - batch['y']) * u
def loss(params, batch, rng):
    return jnp.square(batch['x'] @ params['w'] + params['b'] - batch['y'])
def mk(n, seed):
    r = np.random.RandomState(seed)
    return cds.ClientDataset({'x': r.randint(-2,3,size=(n,2)).astype(np.float32), 'y': r.randint(-2,3,size=(n,)).astype(np.float32)})
params = {'w': jnp.array([0.5,-0.5]), 'b': jnp.array(0.25)}
keys = jax.random.split(jax.random.PRNGKey(0), 4)
pop=[(b'a', mk(2,1), keys[0]), (b'b', mk(3,2), keys[1]), (b'c', mk(0,3), keys[2]), (b'd', mk(5,4), keys[3])]
hist=[[pop[0],pop[1]],[pop[1],pop[2],pop[3]],[pop[3],pop[0]]]
hp = cds.ShuffleRepeatBatchHParams(batch_size=2, num_epochs=2, seed=0)
php = cds.PaddedBatchHParams(batch_size=3)
copt=fedjax.optimizers.sgd(0.125); sopt=fedjax.optimizers.sgd(0.5, momentum=0.5)
def run(alg, st, hist, get=lambda s: s.params):
    out=[]
    for cl in hist:
        st,_=alg.apply(st, cl); out.append(jax.tree_util.tree_map(np.asarray, get(st)))
    return out
def cmp(name, a, b):
    d=max(float(np.max(np.abs(x-y))) for ra,rb in zip(a,b) for x,y in zip(jax.tree_util.tree_leaves(ra), jax.tree_util.tree_leaves(rb)))
    print(name, 'max diff over rounds', d)
fa = fed_avg.federated_averaging(fedjax.grad(loss_rng), copt, sopt, hp); ref_rng = run(fa, fa.init(params), hist)
fa2 = fed_avg.federated_averaging(fedjax.grad(loss), copt, sopt, hp); ref = run(fa2, fa2.init(params), hist)
fp = fed_prox.fed_prox(loss_rng, copt, sopt, hp, 0.0); cmp('fedprox0', run(fp, fp.init(params), hist), ref_rng)
hc = hyp_cluster.hyp_cluster(loss, copt, sopt, php, hp); cmp('hypcluster1', run(hc, hc.init([params]), hist, get=lambda s: s.cluster_params[0]), ref)
fa3 = fed_avg.federated_averaging(fedjax.grad(loss_rng), copt, fedjax.optimizers.sgd(1.0), hp); ref3=run(fa3, fa3.init(params), hist)
ml = mime_lite.mime_lite(loss_rng, copt, hp, php, 1.0); cmp('mimelite', run(ml, ml.init(params), hist), ref3)
ap = apfl.adaptive_personalized_federated_learning(fedjax.grad(loss), copt, sopt, hp, 0.5); cmp('apfl', run(ap, ap.init(params), hist), ref)
# fedprox mu>0 vs fedavg augmented per round
mu=0.5
fpm = fed_prox.fed_prox(loss_rng, copt, sopt, hp, mu)
st_p = fpm.init(params); st_a = fa.init(params); dmax=0
for cl in hist:
    sp = st_a.params
    def aug(p, b, r, sp=sp):
        return loss_rng(p,b,r) + 0.5*mu*tree_util.tree_l2_squared(jax.tree_util.tree_map(lambda a,c:a-c, sp, p))
    fa_r = fed_avg.federated_averaging(fedjax.grad(aug), copt, sopt, hp)
    st_a,_ = fa_r.apply(st_a, cl); st_p,_ = fpm.apply(st_p, cl)
    dmax=max(dmax, max(float(jnp.max(jnp.abs(x-y))) for x,y in zip(jax.tree_util.tree_leaves(st_a.params), jax.tree_util.tree_leaves(st_p.params))))
print('fedprox mu', dmax)
# mime one step
hp1 = cds.ShuffleRepeatBatchHParams(batch_size=2, num_epochs=None, num_steps=1, seed=0)
pop_ne=[c for c in pop if len(c[1])>0]
mm = mime.mime(loss, fedjax.optimizers.sgd(0.125), hp1, php, 0.5)
st=mm.init(params); st1,_=mm.apply(st, pop_ne)
X=np.concatenate([c[1].raw_examples['x'] for c in pop_ne]); Y=np.concatenate([c[1].raw_examples['y'] for c in pop_ne])
w=np.array([0.5,-0.5]); b=0.25; r=X@w+b-Y; gw=2*X.T@r/len(Y); gb=2*r.mean()
print('mime', np.asarray(st1.params['w'])-(w-0.5*0.125*gw), float(st1.params['b'])-(b-0.5*0.125*gb))

"""Invocation routes of the batching entry points.

Every batching function accepts either keyword arguments, or a hparams object, or a hparams object plus keyword
overrides (documented in client_datasets.py). For one EFFECTIVE hyper-parameter assignment this module enumerates
every way of expressing it over a small value domain: kwargs only, object only, and every (base object, overrides)
pair whose overrides turn the base into the effective assignment - including overrides back to a field's default
value, overrides to None, and redundant overrides of fields the base already has right.
"""
import itertools


def assignments(domain):
  """All total assignments over {field: [values]} in a deterministic order."""
  fields = sorted(domain)
  for vals in itertools.product(*[domain[f] for f in fields]):
    yield dict(zip(fields, vals))


# the DOCUMENTED field order of the hyper-parameter classes (client_datasets.py docstrings), which is also the order of
# positional constructor arguments: HParams(4, 2, None, True) means batch_size=4, num_epochs=2, num_steps=None, drop_remainder=True
FIELD_ORDER = {
    'ShuffleRepeatBatchHParams': ['batch_size', 'num_epochs', 'num_steps', 'drop_remainder', 'seed', 'skip_shuffle'],
    'BatchHParams': ['batch_size', 'drop_remainder'],
    'PaddedBatchHParams': ['batch_size', 'num_batch_size_buckets'],
}


class PosArgs(dict):
  """A base assignment whose first `npos` fields (documented order) are passed positionally to the constructor."""
  npos = 0


def routes(effective, domain, max_diff=None):
  """Yields (label, base assignment or None, override kwargs) for one effective assignment."""
  yield 'kwargs', None, dict(effective)
  yield 'object', dict(effective), {}
  for k in range(2, len(effective) + 1):
    b = PosArgs(effective)
    b.npos = k
    yield 'positional%d' % k, b, {}
  yield 'object_redundant', dict(effective), dict(effective)
  fields = sorted(domain)
  for base in assignments(domain):
    diff = [f for f in fields if base[f] != effective[f]]
    if not diff or (max_diff is not None and len(diff) > max_diff):
      continue
    yield 'override', base, {f: effective[f] for f in diff}
    yield 'override_all', base, dict(effective)


def invoke(fn, hparams_cls, base, overrides, *args):
  """Calls fn(*args, hparams?, **overrides) along one route."""
  if base is None:
    return fn(*args, **overrides)
  if isinstance(base, PosArgs):
    order = FIELD_ORDER[hparams_cls.__name__]
    pos = [f for f in order if f in base][:base.npos]
    assert pos == order[:len(pos)], 'positional route needs a prefix of the documented field order'
    obj = hparams_cls(*[base[f] for f in pos], **{f: v for f, v in base.items() if f not in pos})
    return fn(*args, obj, **overrides)
  return fn(*args, hparams_cls(**base), **overrides)

"""Shared pieces for the algorithm properties (C01, C10, C12, C17): a 3-parameter regression
problem, client populations, and a boring float64 reference of client training / FedAvg.

Trusted: jax.random key splitting and uniform draws (the reference uses the same calls), and the
seeded batch stream of ClientDataset.shuffle_repeat_batch (decided by C04).
"""
import numpy as np

from mc import core

P0 = {'w': [0.5, -1.0], 'b': 0.25}


def jparams(p=None, dtype=np.float32):
  import jax.numpy as jnp
  p = p or P0
  return {'w': jnp.asarray(np.asarray(p['w'], dtype)), 'b': jnp.asarray(np.asarray(p['b'], dtype))}


def nparams(p):
  return {'w': np.asarray(p['w'], np.float64), 'b': np.asarray(p['b'], np.float64)}


def make_loss(mode='rng'):
  """per_example_loss(params, batch, rng); mode 'rng' multiplies by u = uniform(rng)+0.5 (one scalar per call)."""
  import jax
  import jax.numpy as jnp

  def loss(params, batch, rng):
    r = batch['x'] @ params['w'] + params['b'] - batch['y']
    out = r * r
    if mode == 'rng':
      out = out * (jax.random.uniform(rng, ()) + 0.5)
    return out
  return loss


def client_data(n, idx, seed=0, domains=2, dtype=np.float32):
  v = core.value_pool(seed * 17 + idx * 5 + 1, 3 * max(n, 1) + 3, lo=-2, hi=2, denom=2)
  x = np.asarray(v[:2 * n], dtype).reshape(n, 2)
  y = np.asarray(v[2 * n:3 * n], dtype).reshape(n) + dtype(1 / 32)
  d = ((np.arange(n) + idx) % domains).astype(np.int32)
  return {'x': x, 'y': y, 'domain_id': d}


def _center_on_batch_mean(batch):
  """A batch-LEVEL preprocessing fn (allowed by BatchPreprocessor): features centred on the mean of the batch they are in."""
  return {**batch, 'x': batch['x'] - batch['x'].mean(axis=0, keepdims=True) if len(batch['x']) else batch['x']}


def _halve_inplace(batch):
  """A preprocessing fn in the 'update the dict you were given and return it' style; applying it twice differs from once."""
  batch['x'] = batch['x'] * np.float32(0.5)
  return batch


def population(sizes, seed=0, domains=2, ids=None, data_fn=None, typed_keys=False, batch_level_pre=False, inplace_pre=False):
  """[(client_id, ClientDataset, PRNGKey)]; typed_keys: new-style jax.random.key(...) keys with the same key data."""
  import fedjax
  import jax
  out = []
  for i, n in enumerate(sizes):
    cid = ids[i] if ids else (b'c%d' % i)
    ex = (data_fn or client_data)(n, i, seed, domains)
    from fedjax.core import client_datasets as _cds
    ds = fedjax.ClientDataset(ex, _cds.BatchPreprocessor([_center_on_batch_mean])) if batch_level_pre else fedjax.ClientDataset(ex)
    if inplace_pre:
      ds = fedjax.ClientDataset(ex, _cds.BatchPreprocessor([_halve_inplace]))
    out.append((cid, ds, jax.random.key(100 + i) if typed_keys else jax.random.PRNGKey(100 + i)))
  return out


# ---- reference optimizers (float64) -----------------------------------------------------------------

class RefSGD:
  def __init__(self, lr, momentum=None):
    self.lr, self.mu = lr, momentum

  def init(self, p):
    return None if self.mu is None else {k: np.zeros_like(np.asarray(v, np.float64)) for k, v in p.items()}

  def apply(self, g, st, p):
    if self.mu is None:
      return None, {k: p[k] - self.lr * g[k] for k in p}
    st = {k: g[k] + self.mu * st[k] for k in p}
    return st, {k: p[k] - self.lr * st[k] for k in p}


class RefAdam:
  def __init__(self, lr, b1=0.9, b2=0.999, eps=1e-8):
    self.lr, self.b1, self.b2, self.eps = lr, b1, b2, eps

  def init(self, p):
    z = {k: np.zeros_like(np.asarray(v, np.float64)) for k, v in p.items()}
    return {'t': 0, 'm': z, 'v': {k: v.copy() for k, v in z.items()}}

  def apply(self, g, st, p):
    t = st['t'] + 1
    m = {k: self.b1 * st['m'][k] + (1 - self.b1) * g[k] for k in p}
    v = {k: self.b2 * st['v'][k] + (1 - self.b2) * g[k] ** 2 for k in p}
    new = {}
    for k in p:
      mh = m[k] / (1 - self.b1 ** t)
      vh = v[k] / (1 - self.b2 ** t)
      new[k] = p[k] - self.lr * mh / (np.sqrt(vh) + self.eps)
    return {'t': t, 'm': m, 'v': v}, new


OPTS = {
    'sgd': lambda lr: ('sgd', lr, None),
    'mom': lambda lr: ('sgd', lr, 0.5),
    'adam': lambda lr: ('adam', lr, None),
}


def make_opt(name, lr):
  """(fedjax optimizer, reference optimizer)"""
  import fedjax
  if name == 'sgd':
    return fedjax.optimizers.sgd(lr), RefSGD(lr)
  if name == 'mom':
    return fedjax.optimizers.sgd(lr, momentum=0.5), RefSGD(lr, 0.5)
  if name == 'adam':
    return fedjax.optimizers.adam(lr), RefAdam(lr)
  raise KeyError(name)


# ---- reference training -------------------------------------------------------------------------------

def ref_grad(p, batch, u=1.0, prox=None):
  """Gradient of mean_i((x_i.w+b-y_i)^2 * u) (+ 0.5*mu*|p-c|^2)."""
  x = np.asarray(batch['x'], np.float64)
  y = np.asarray(batch['y'], np.float64)
  r = x @ p['w'] + p['b'] - y
  n = len(y)
  g = {'w': (2 * r[:, None] * x).sum(0) * u / n, 'b': np.asarray((2 * r).sum() * u / n)}
  if prox is not None:
    mu, c = prox
    g = {k: g[k] + mu * (p[k] - c[k]) for k in g}
  return g


def ref_client_delta(p_server, batches, key, client_opt, loss_mode='rng', prox_mu=None, splits=2, l2=None):
  """Sequential optimizer steps over the client's batch stream with its own key; returns (delta, steps)."""
  import jax
  p = {k: v.copy() for k, v in p_server.items()}
  st = client_opt.init(p)
  steps = 0
  for b in batches:
    ks = jax.random.split(key, splits)
    key, use = ks[0], ks[1]
    u = float(jax.random.uniform(use, ())) + 0.5 if loss_mode == 'rng' else 1.0
    g = ref_grad(p, b, u, (prox_mu, p_server) if prox_mu else None)
    if l2:
      g = {k: g[k] + l2 * p[k] for k in g}   # regularizer l2/2 * |p|^2
    st, p = client_opt.apply(g, st, p)
    steps += 1
  return {k: p_server[k] - p[k] for k in p}, steps


def ref_fedavg_round(p_server, server_opt_state, cohort, hparams, client_opt, server_opt, loss_mode='rng'):
  """cohort: [(cid, ClientDataset, key)]. Returns (new params, new server opt state, per-client delta norms)."""
  tot = {k: np.zeros_like(v) for k, v in p_server.items()}
  nsum = 0.0
  norms = {}
  for cid, ds, key in cohort:
    batches = list(ds.shuffle_repeat_batch(hparams))
    n = len(ds)
    if n > 0:
      # the number of local steps is the documented function of the hyper-parameters (independent of the library's view)
      from mc.ref import batching as _rb
      want = _rb.shuffle_num_steps(n, hparams.batch_size, hparams.num_epochs, hparams.num_steps, hparams.drop_remainder)
      core.require(len(batches) == want, 'client %r takes %d local steps, the documented batch stream has %d' % (cid, len(batches), want),
                   want, len(batches))
    delta, _ = ref_client_delta(p_server, batches, key, client_opt, loss_mode)
    for k in tot:
      tot[k] = tot[k] + n * delta[k]
    nsum += n
    norms[cid] = float(np.sqrt(sum(np.sum(v ** 2) for v in delta.values())))
  mean = {k: (v / nsum if nsum > 0 else np.zeros_like(v)) for k, v in tot.items()}
  st, p = server_opt.apply(mean, server_opt_state, p_server)
  return p, st, norms


def tree_np(t):
  """Deep copy of a pytree to numpy (value snapshot)."""
  import jax
  return jax.tree_util.tree_map(lambda l: np.array(l, copy=True), t)


def trees_equal(a, b, rtol=1e-6, atol=1e-7):
  import jax
  la, ta = jax.tree_util.tree_flatten(a)
  lb, tb = jax.tree_util.tree_flatten(b)
  if ta != tb or len(la) != len(lb):
    return False
  for x, y in zip(la, lb):
    x, y = np.asarray(x), np.asarray(y)
    if x.shape != y.shape:
      return False
    if x.dtype.kind in 'fc' or y.dtype.kind in 'fc':
      if not np.allclose(x.astype(np.float64), y.astype(np.float64), rtol=rtol, atol=atol, equal_nan=True):
        return False
    elif not np.array_equal(x, y):
      return False
  return True


def params_close(got, want, rtol=1e-4, atol=1e-5):
  for k in want:
    g = np.asarray(got[k], np.float64)
    w = np.asarray(want[k], np.float64)
    if g.shape != w.shape or not np.all(np.isfinite(g)) or not np.all(np.abs(g - w) <= atol + rtol * np.abs(w)):
      return False
  return True


def plist(p):
  return {k: np.asarray(v, np.float64).round(6).tolist() for k, v in p.items()}


class TransientError(Exception):
  """Raised once by a client's batch preprocessor (a transient I/O failure while the round is running)."""


def failing_once(client):
  """(cid, dataset, key) -> same client whose batch preprocessor raises TransientError on its first invocation."""
  import fedjax
  from fedjax.core import client_datasets as cds
  cid, ds, key = client
  fired = []

  def boom(x):
    if not fired:
      fired.append(1)
      raise TransientError('transient failure while reading client %r' % cid)
    return x
  return (cid, fedjax.ClientDataset(ds.raw_examples, cds.BatchPreprocessor([boom])), key)


def aborted_round(alg, state, cohort):
  """Runs a round that fails at its last non-empty client; returns True if the round indeed aborted."""
  idx = [i for i, c in enumerate(cohort) if len(c[1]) > 0]
  if len(idx) < 2:
    return False
  bad = list(cohort)
  bad[idx[-1]] = failing_once(cohort[idx[-1]])
  try:
    alg.apply(state, bad)
  except TransientError:
    return True
  except Exception as e:  # wrapped by a backend (ForEachClientError) or similar
    return True
  return False

import sys, threading, time
import fedjax
from fedjax.core import for_each_client as fec
TARGET = fec.__file__

class Sched:
    def __init__(self):
        self.sems = {}; self.ctl = threading.Semaphore(0); self.done = set(); self.trace_log=[]
    def tracer(self, tid):
        def local(frame, event, arg):
            if event == 'line' and frame.f_code.co_filename == TARGET:
                self.trace_log.append((tid, frame.f_lineno))
                self.ctl.release(); self.sems[tid].acquire()
            return local
        def glob(frame, event, arg):
            if frame.f_code.co_filename == TARGET: return local
            return None
        return glob
    def spawn(self, tid, fn):
        self.sems[tid] = threading.Semaphore(0)
        def body():
            self.sems[tid].acquire()
            sys.settrace(self.tracer(tid))
            try: fn()
            finally:
                sys.settrace(None); self.done.add(tid); self.ctl.release()
        th = threading.Thread(target=body); th.start(); return th
    def step(self, tid):
        self.sems[tid].release(); self.ctl.acquire()

class Mark(fec.ForEachClientBackend):
    def __init__(self, n): self.n=n
    def __call__(self, *a): return self.n
obs = {}
def prog(tid, b):
    def f():
        with fec.for_each_client_backend(b):
            obs[tid, 'in'] = fec.get_for_each_client_backend()
        obs[tid, 'out'] = fec.get_for_each_client_backend()
    return f
def run(schedule):
    s = Sched(); A, B = Mark('A'), Mark('B')
    ths = [s.spawn(0, prog(0, A)), s.spawn(1, prog(1, B))]
    n=0
    for tid in schedule:
        if tid in s.done: continue
        s.step(tid); n+=1
    for tid in (0,1):
        while tid not in s.done: s.step(tid); n+=1
    for t in ths: t.join()
    return n, (obs[0,'in'].n, obs[1,'in'].n, type(obs[0,'out']).__name__, type(obs[1,'out']).__name__), len(s.trace_log)
t0=time.time()
print(run([0]*30))
print(run([0,1]*15))
print(run([1,1,1,0,0,1,0,1,1,0]))
print('time', time.time()-t0)

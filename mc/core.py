"""Shared machinery of the bounded-exhaustive explorer: case execution, violations,
replay artefacts, known findings, evidence, process pool.

A *check module* (mc/checks/cNN_*.py) exposes
  PROPERTY, LEVEL                         ids
  SUBS = {name: fn(case: dict) -> info}   one bounded execution (or a macro-enumeration
                                          narrowed by optional fields of `case`)
  plan(ctx)                               enumerates (sub, case) pairs via ctx.run()/ctx.pmap()

`fn` raises Violation when the oracle fails.  `info` (optional dict) may carry
  outcome      hashable/JSON-able digest of what was observed (vacuity + determinism guard)
  nontrivial   bool or int: does this case exercise the interesting branch
  evals        number of executions performed inside a macro case (default 1)
  states / transitions / traces   for graph explorations
  keys         list of distinct non-trivial canonical keys visited inside a macro case
"""
import fnmatch
import hashlib
import json
import os
import signal
import sys
import time
import traceback

VERIF = os.path.dirname(os.path.dirname(os.path.abspath(__file__)))
CASE_TIMEOUT_S = int(os.environ.get('VERIF_CASE_TIMEOUT', '300'))
MAX_REPORTED = 12


class Violation(Exception):
  """The oracle failed on one execution."""

  def __init__(self, msg, expected=None, observed=None, case=None):
    super().__init__(msg)
    self.msg = msg
    self.expected = expected
    self.observed = observed
    self.case = case  # narrowed (minimal) case, if the sub is a macro enumeration


class HarnessError(Exception):
  """The harness itself misbehaved (nondeterminism, seam missing). Exit code 2."""


class _Timeout(BaseException):
  pass


def _alarm(signum, frame):
  raise _Timeout()


def jsonable(x):
  """Best-effort conversion to JSON-able data (for replay files and samples)."""
  import numpy as np
  if isinstance(x, dict):
    return {str(jsonable(k)) if not isinstance(k, str) else k: jsonable(v) for k, v in x.items()}
  if isinstance(x, (list, tuple, set, frozenset)):
    return [jsonable(v) for v in x]
  if isinstance(x, bytes):
    return 'bytes:' + x.hex()
  if isinstance(x, (np.generic,)):
    return jsonable(x.item())
  if isinstance(x, float):
    if x != x:
      return 'nan'
    if x in (float('inf'), float('-inf')):
      return 'inf' if x > 0 else '-inf'
    return x
  if isinstance(x, complex):
    return [x.real, x.imag]
  if isinstance(x, (str, int, bool)) or x is None:
    return x
  if hasattr(x, 'tolist') and hasattr(x, 'dtype'):
    try:
      return {'dtype': str(x.dtype), 'value': jsonable(np.asarray(x).tolist())}
    except Exception:  # pylint: disable=broad-except
      return repr(x)
  return repr(x)


def case_key(sub, case):
  return sub + '/' + json.dumps(jsonable(case), sort_keys=True, separators=(',', ':'))


def digest(x):
  return hashlib.sha1(json.dumps(jsonable(x), sort_keys=True).encode()).hexdigest()[:16]


# Interpreter-level configurations under which a user may run the library. A sub-space executed under configuration
# <cfg> is recorded as '<sub>@<cfg>'; the variables must be in the environment before jax is imported, so such cases
# only run in worker processes started for that configuration (and in a replay, whose process sets them first).
CONFIGS = {
    'x64': {'JAX_ENABLE_X64': '1'},                          # 64-bit default dtypes
    'legacy_prng': {'JAX_THREEFRY_PARTITIONABLE': '0'},      # legacy threefry bit layout
    'rbg': {'JAX_DEFAULT_PRNG_IMPL': 'rbg'},                 # another PRNG implementation behind PRNGKey()
    'nojit': {'JAX_DISABLE_JIT': '1'},                       # op-by-op execution
    # 64-bit mode switched on by the program AFTER fedjax was imported (jax.config.update('jax_enable_x64', True) at the top of
    # a training script): whatever the library computed from the default dtypes at import time is stale afterwards
    'x64_late': {'VERIF_X64_LATE': '1'},
}


def config_env(sub):
  return CONFIGS[sub.split('@', 1)[1]] if '@' in sub else {}


def _late_x64():
  import importlib
  import jax
  if jax.config.jax_enable_x64:
    return
  for m in ('fedjax', 'fedjax.aggregators', 'fedjax.algorithms', 'fedjax.models', 'fedjax.datasets', 'fedjax.training',
            'fedjax.aggregators.walsh_hadamard', 'fedjax.aggregators.compression'):
    importlib.import_module(m)
  jax.config.update('jax_enable_x64', True)


def execute(module_name, sub, case):
  """Runs one case. Returns a result record (picklable)."""
  import importlib
  mod = importlib.import_module(module_name)
  for k, v in config_env(sub).items():
    if os.environ.get(k) != v:
      return {'sub': sub, 'case': case, 'status': 'harness', 'info': None,
              'msg': 'configuration %s=%s is not in effect in this process' % (k, v)}
  if os.environ.get('VERIF_X64_LATE') == '1' and sub.endswith('@x64_late'):
    _late_x64()
  full_sub, sub = sub, sub.split('@', 1)[0]
  fn = mod.SUBS[sub]
  # per-sub-space limit chosen by the check (macro cases that explore a whole graph need more than the default);
  # VERIF_CASE_TIMEOUT, when set explicitly, is an upper bound for all of them
  timeout_s = getattr(mod, 'TIMEOUTS', {}).get(sub, CASE_TIMEOUT_S)
  if 'VERIF_CASE_TIMEOUT' in os.environ:
    timeout_s = min(timeout_s, CASE_TIMEOUT_S)
  rec = {'sub': full_sub, 'case': case, 'status': 'ok', 'info': None}
  old = None
  use_alarm = hasattr(signal, 'SIGALRM') and _in_main_thread()
  if use_alarm:
    old = signal.signal(signal.SIGALRM, _alarm)
    signal.alarm(timeout_s)
  try:
    try:
      info = fn(case)
    except _Timeout:
      # a case that normally takes milliseconds can exceed even a generous limit on a starved machine (observed once with
      # ~160 interpreters on 62 GB): a real non-termination times out again, so the case gets exactly one more attempt
      if not use_alarm:
        raise
      signal.alarm(timeout_s)
      info = fn(case)
      info = dict(info or {})
      info['timed_out_once'] = True
    rec['info'] = info or {}
  except Violation as v:
    rec.update(status='violation', msg=v.msg, expected=jsonable(v.expected),
               observed=jsonable(v.observed), min_case=v.case)
  except _Timeout:
    rec.update(status='violation', msg=f'execution did not terminate within {timeout_s}s',
               expected='termination', observed='timeout', min_case=None, timed_out=True)
  except HarnessError as e:
    rec.update(status='harness', msg=str(e) + '\n' + traceback.format_exc())
  except Exception as e:  # pylint: disable=broad-except
    rec.update(status='violation',
               msg='unexpected exception: %s: %s' % (type(e).__name__, str(e)[:500]),
               expected='no exception', observed=traceback.format_exc()[-3000:], min_case=None)
  finally:
    if use_alarm:
      signal.alarm(0)
      signal.signal(signal.SIGALRM, old)
  return rec


def _in_main_thread():
  import threading
  return threading.current_thread() is threading.main_thread()


def _worker_chunk(module_name, sub, cases):
  return [execute(module_name, sub, c) for c in cases]


def _worker_init(env):
  os.environ.update(env)
  sys.path.insert(0, VERIF)


class Ctx:
  """Per-run bookkeeping."""

  def __init__(self, prop, level, tier, seed, module_name):
    self.prop, self.level, self.tier, self.seed = prop, level, tier, seed
    self.module_name = module_name
    self.t0 = time.time()
    self.evaluations = 0
    self.nontrivial = set()
    self.outcomes = {}
    self.subspaces = {}
    self.samples = []
    self.violations = []
    self.known_hits = []
    self.states = 0
    self.transitions = 0
    self.traces = 0
    self.graph_used = False
    self.caps = []
    self.assumptions = []
    self.extra = {}
    self.rule = ''
    self._determinism_done = set()
    self._timeouts = {}
    self._pool = None
    self._pool_workers = 0
    self.planned = {}   # sub -> cases planned in this run (source of the configuration passes)
    self.known = [k for k in load_known() if k.get('property') == prop and k.get('status') == 'known']
    self.quick = tier == 'quick'

  # ---- execution -------------------------------------------------------
  def run(self, sub, cases, reverse_pass=False):
    """In-process execution of an iterable of cases.

    reverse_pass: execute the cases a second time in REVERSE order in the same process. Every case is judged by its
    own oracle, so the second pass is a history-independence check: state left behind by one case (module-level
    caches, reused buffers) meets the cases in the opposite order as well."""
    cases = list(cases)
    self.planned.setdefault(sub, []).extend(cases)
    if getattr(self, 'only', None) and sub not in self.only:
      return
    if reverse_pass:
      cases = cases + cases[::-1]
    for case in cases:
      if self._timeouts.get(sub, 0) >= 2:
        self.caps.append({'sub': sub, 'cap': 'sub-space abandoned after 2 non-terminating executions'})
        break
      if sub not in self._determinism_done:
        self._determinism_done.add(sub)
        self._determinism(sub, case)
      self._absorb(execute(self.module_name, sub, case))

  def pmap(self, sub, cases, workers=None, chunk=8):
    """Parallel execution in spawned worker processes (order of absorption = case order)."""
    cases = list(cases)
    if getattr(self, 'only', None) and sub not in self.only:
      self.planned.setdefault(sub, []).extend(cases)
      return
    if not cases:
      return
    workers = workers or int(os.environ.get('VERIF_WORKERS', '0')) or min(16, os.cpu_count() or 4)
    if workers <= 1 or len(cases) <= 2:
      return self.run(sub, cases)
    self.planned.setdefault(sub, []).extend(cases)
    if sub not in self._determinism_done:
      self._determinism_done.add(sub)
      self._determinism(sub, cases[0])
    import importlib
    per_case = getattr(importlib.import_module(self.module_name), 'TIMEOUTS', {}).get(sub, CASE_TIMEOUT_S)
    pool = self._get_pool(workers)
    chunks = [cases[i:i + chunk] for i in range(0, len(cases), chunk)]
    futs = [pool.submit(_worker_chunk, self.module_name, sub, ch) for ch in chunks]
    for ch, f in zip(chunks, futs):
      try:
        recs = f.result(timeout=per_case * len(ch) + 600)
      except Exception as e:  # worker died / timeout  # pylint: disable=broad-except
        raise HarnessError('worker failure in %s: %r' % (sub, e))
      for r in recs:
        self._absorb(r)

  def _get_pool(self, workers):
    import concurrent.futures as cf
    import multiprocessing as mp
    if self._pool is None or self._pool_workers < workers:
      if self._pool is not None:
        self._pool.shutdown()
      env = {k: v for k, v in os.environ.items()
             if k.startswith(('VERIF', 'JAX', 'XLA', 'PYTHON', 'TF_', 'FEDJAX'))}
      self._pool = cf.ProcessPoolExecutor(max_workers=workers, mp_context=mp.get_context('spawn'),
                                          initializer=_worker_init, initargs=(env,))
      self._pool_workers = workers
    return self._pool

  def pmap_config(self, cfg, sub, cases, workers=None, chunk=8):
    """The cases of `sub` executed in worker interpreters started under configuration `cfg` (see CONFIGS); recorded as
    sub-space '<sub>@<cfg>'."""
    if getattr(self, 'only', None) and sub not in self.only and (sub + '@' + cfg) not in self.only:
      return
    cases = list(cases)
    if not cases:
      return
    import concurrent.futures as cf
    import importlib
    import multiprocessing as mp
    workers = workers or int(os.environ.get('VERIF_WORKERS', '0')) or min(16, os.cpu_count() or 4)
    workers = max(1, min(workers, (len(cases) + chunk - 1) // chunk))
    env = {k: v for k, v in os.environ.items() if k.startswith(('VERIF', 'JAX', 'XLA', 'PYTHON', 'TF_', 'FEDJAX'))}
    env.update(CONFIGS[cfg])
    per_case = getattr(importlib.import_module(self.module_name), 'TIMEOUTS', {}).get(sub, CASE_TIMEOUT_S)
    full = sub + '@' + cfg
    pool = cf.ProcessPoolExecutor(max_workers=workers, mp_context=mp.get_context('spawn'), initializer=_worker_init,
                                  initargs=(env,))
    try:
      chunks = [cases[i:i + chunk] for i in range(0, len(cases), chunk)]
      futs = [pool.submit(_worker_chunk, self.module_name, full, ch) for ch in chunks]
      for ch, f in zip(chunks, futs):
        try:
          recs = f.result(timeout=per_case * len(ch) + 600)
        except Exception as e:  # pylint: disable=broad-except
          raise HarnessError('worker failure in %s: %r' % (full, e))
        for r in recs:
          self._absorb(r)
    finally:
      pool.shutdown()

  def config_passes(self, passes):
    """passes: {cfg: {sub: stride}} - re-executes the planned cases of the listed sub-spaces under interpreter
    configuration cfg (quick tier: every stride-th planned case, a fixed sub-lattice; thorough tier: all of them)."""
    done = []
    for cfg, subs in passes.items():
      for sub, stride in subs.items():
        cases = self.planned.get(sub, [])
        # x64_late differs from x64 only in WHEN the mode is switched on: a sub-lattice (plus config_cases) in both tiers
        sel = cases if (self.tier == 'thorough' and cfg != 'x64_late') else cases[::max(1, stride)]
        import importlib
        extra = getattr(importlib.import_module(self.module_name), 'config_cases', None)
        if extra is not None:
          sel = list(sel) + list(extra(cfg, sub, self))   # cases that only make sense under this configuration
        if not sel:
          continue
        self.pmap_config(cfg, sub, sel, chunk=max(1, len(sel) // 24))
        done.append('%s@%s (%d of %d planned cases)' % (sub, cfg, len(sel), len(cases)))
    if done:
      self.rule += ('; configuration passes (%s): ' % ', '.join('%s = %s' % (c, ' '.join('%s=%s' % kv for kv in CONFIGS[c].items()))
                                                            for c in passes) + ', '.join(done))

  def close(self):
    if self._pool is not None:
      self._pool.shutdown()
      self._pool = None

  def _determinism(self, sub, case):
    a = execute(self.module_name, sub, case)
    if a.get('timed_out'):
      return
    b = execute(self.module_name, sub, case)
    strip = lambda m: __import__('re').sub(r'/tmp/[A-Za-z0-9_]+', '/tmp/X', m or '')
    ka = (a['status'], digest(a.get('info', {}) and a['info'].get('outcome')), strip(a.get('msg')))
    kb = (b['status'], digest(b.get('info', {}) and b['info'].get('outcome')), strip(b.get('msg')))
    if ka != kb and a['status'] == 'ok' and b['status'] == 'ok':
      # Only two *passing* executions with different observations indicate nondeterminism of the harness. If the
      # oracle failed in either execution the case is simply executed (and reported) by the normal run that follows:
      # state leaking between executions is one of the defects this machinery looks for, not a harness problem.
      raise HarnessError('harness nondeterminism in %s: the same case executed twice gave %r vs %r'
                         % (case_key(sub, case), ka, kb))

  def _absorb(self, rec):
    sub, case = rec['sub'], rec['case']
    sp = self.subspaces.setdefault(sub, {'cases': 0, 'evaluations': 0, 'violations': 0,
                                         'distinct_nontrivial': 0, 'distinct_outcomes': 0})
    sp['cases'] += 1
    if rec['status'] == 'harness':
      raise HarnessError(rec['msg'])
    if rec['status'] == 'violation':
      if rec.get('timed_out'):
        self._timeouts[sub] = self._timeouts.get(sub, 0) + 1
      sp['evaluations'] += 1
      self.evaluations += 1
      self._violation(rec)
      return
    info = rec['info'] or {}
    for v in info.get('violations', []):
      # a macro case may report several violating executions and keep exploring
      self._violation({'sub': sub, 'case': case, 'min_case': v.get('case'), 'msg': v.get('msg'),
                       'expected': jsonable(v.get('expected')), 'observed': jsonable(v.get('observed'))})
    ev = int(info.get('evals', 1))
    sp['evaluations'] += ev
    self.evaluations += ev
    nt = info.get('nontrivial', True)
    keys = info.get('keys')
    before = len(self.nontrivial)
    if keys is not None:
      for k in keys:
        self.nontrivial.add(digest([sub, k]))
    elif nt:
      self.nontrivial.add(digest([sub, jsonable(case)]))
    sp['distinct_nontrivial'] += len(self.nontrivial) - before
    oc = self.outcomes.setdefault(sub, set())
    if 'outcomes' in info:
      for o in info['outcomes']:
        oc.add(o if isinstance(o, str) else digest(o))
    elif 'outcome' in info:
      oc.add(digest(info['outcome']))
    sp['distinct_outcomes'] = len(oc)
    for k in ('states', 'transitions', 'traces'):
      if k in info:
        self.graph_used = True
        setattr(self, k, getattr(self, k) + int(info[k]))
        sp[k] = sp.get(k, 0) + int(info[k])
    if info.get('cap'):
      self.caps.append({'sub': sub, 'case': jsonable(case), 'cap': info['cap']})
    for k, v in (info.get('stats') or {}).items():
      sp[k] = sp.get(k, 0) + v
    if sp['cases'] in (1, 2) or (info.get('sample') and len(self.samples) < 12):
      if len(self.samples) < 12:
        s = {'sub': sub, 'case': jsonable(case)}
        if 'sample' in info:
          s['observed'] = jsonable(info['sample'])
        self.samples.append(s)

  def _violation(self, rec):
    sub = rec['sub']
    case = rec.get('min_case') or rec['case']
    key = self.prop + ':' + case_key(sub, case)
    plain = self.prop + ':' + case_key(sub.split('@', 1)[0], case)   # a listed finding is the same finding under any configuration
    self.subspaces[sub]['violations'] += 1
    for k in self.known:
      if wildcard_match(k['match'], key) or wildcard_match(k['match'], plain):
        if k['match'] not in [h['match'] for h in self.known_hits]:
          print('KNOWN-FINDING: property=%s %s [%s]' % (self.prop, k['summary'], k['match']), flush=True)
          self.known_hits.append(k)
        return
    self.violations.append(key)
    if len(self.violations) > MAX_REPORTED:
      return
    d = os.path.join(VERIF, 'replays', self.prop)
    os.makedirs(d, exist_ok=True)
    path = os.path.join(d, sub.replace('/', '_') + '-' + hashlib.sha1(key.encode()).hexdigest()[:12] + '.json')
    with open(path, 'w') as f:
      json.dump({'property': self.prop, 'module': self.module_name, 'sub': sub, 'case': jsonable_case(case),
                 'case_key': key, 'message': rec.get('msg'), 'expected': rec.get('expected'),
                 'observed': rec.get('observed'),
                 'how_to_replay': './vcheck %s --replay %s' % (self.prop, path)}, f, indent=1)
    print('VIOLATION property=%s replay=%s' % (self.prop, path), flush=True)
    print('  case: %s\n  why : %s' % (key[:400], (rec.get('msg') or '')[:600]), flush=True)

  # ---- evidence ----------------------------------------------------------
  def write_evidence(self, error=None):
    cov = {
        'evaluations': self.evaluations,
        'distinct_nontrivial': len(self.nontrivial),
        'rule': self.rule,
        'samples': self.samples[:12],
        'exhaustive': not self.caps and error is None,
        'caps_hit': self.caps[:20],
        'subspaces': self.subspaces,
        'distinct_outcomes': {k: len(v) for k, v in self.outcomes.items()},
        'known_findings_reproduced': [k['match'] for k in self.known_hits],
    }
    if self.graph_used or self.level == 'model_checking':
      cov['states'] = self.states
      cov['transitions'] = self.transitions
      cov['traces_validated_against_impl'] = self.traces
      cov['trace_validation'] = ('every explored transition is an execution of the real fedjax function '
                                 '(the implementation is the transition relation); the reference model is '
                                 'stepped in lock-step and compared on every transition')
    cov.update(self.extra)
    if error:
      cov['harness_error'] = error[:2000]
    ev = {'property_id': self.prop, 'tier': self.tier, 'seed': self.seed, 'level': self.level,
          'coverage': cov, 'assumptions': self.assumptions, 'wall_s': round(time.time() - self.t0, 2),
          'violations': len(self.violations)}
    os.makedirs(os.path.join(VERIF, 'evidence'), exist_ok=True)
    path = os.path.join(VERIF, 'evidence', self.prop + '.json')
    tmp = path + '.tmp'
    with open(tmp, 'w') as f:
      json.dump(ev, f, indent=1, sort_keys=False)
    os.replace(tmp, path)
    return path


def wildcard_match(pattern, key):
  """Only '*' is special (any substring); everything else is literal."""
  import re
  return re.fullmatch('.*'.join(re.escape(p) for p in pattern.split('*')), key, re.S) is not None


def jsonable_case(case):
  return jsonable(case)


def load_known():
  p = os.path.join(VERIF, 'known_findings.json')
  if not os.path.exists(p):
    return []
  with open(p) as f:
    return json.load(f)['findings']


# ---- small helpers shared by checks ----------------------------------------

def require(cond, msg, expected=None, observed=None, case=None):
  if not cond:
    raise Violation(msg, expected, observed, case)


def close(a, b, rtol=1e-4, atol=1e-5):
  import numpy as np
  a = np.asarray(a, dtype=np.float64)
  b = np.asarray(b, dtype=np.float64)
  if a.shape != b.shape:
    return False
  return bool(np.all(np.abs(a - b) <= atol + rtol * np.abs(b)) and np.all(np.isnan(a) == np.isnan(b)))


def require_close(a, b, msg, rtol=1e-4, atol=1e-5, case=None):
  import numpy as np
  if not close(a, b, rtol, atol):
    raise Violation(msg, expected=np.asarray(b).tolist(), observed=np.asarray(a).tolist(), case=case)


def value_pool(seed, n, lo=-4, hi=4, denom=4):
  """Deterministic dyadic values; the seed only offsets the pool (structure is seed independent)."""
  out = []
  x = (seed * 7919 + 13) % 1000003
  for _ in range(n):
    x = (x * 1103515245 + 12345) % (2 ** 31)
    out.append(lo + ((x >> 8) % ((hi - lo) * denom + 1)) / denom)
  return out

#!/usr/bin/env python3
"""wave_table.py <wave tag, e.g. w5> <frozen results file>: markdown table of the seeds of one wave."""
import glob, json, os, re, sys
tag, frozen_file = sys.argv[1], sys.argv[2]
frozen = {}
for l in open(frozen_file):
  m = re.match(r'(C\d+-\w+) frozen-check violations=(\d+)', l)
  if m:
    frozen[m.group(1)] = int(m.group(2))
print('| seed | changed file | what the change does / what it needs | caught by (first violating case) | frozen version of the checks |')
print('|---|---|---|---|---|')
for d in sorted(glob.glob('/verif/seeded/*-%s*' % tag)):
  lab = os.path.basename(d)
  m = json.load(open(d + '/meta.json'))
  v = m.get('verification', {})
  cks = v.get('checks', {})
  parts = []
  for c, ck in cks.items():
    if ck.get('violations'):
      first = (ck.get('first') or [''])[0].replace('  case: ', '')
      sub = first.split('/')[0].split(':')[-1] if first else '?'
      parts.append('%s `%s` (%d)' % (c, sub, ck['violations']))
  files = m.get('files') or m.get('changed_files') or []
  if isinstance(files, str):
    files = [files]
  files = ', '.join(os.path.basename(f) for f in files)[:60]
  summ = re.sub(r'\s+', ' ', str(m.get('summary', m.get('what', ''))))[:170]
  needs = re.sub(r'\s+', ' ', str(m.get('needs', m.get('needs_to_manifest', ''))))[:150]
  fz = frozen.get(lab)
  pre = '?' if fz is None else ('caught (%d)' % fz if fz else '**missed**')
  print('| %s | %s | %s *Needs:* %s | %s | %s |' % (lab, files, summ.replace('|', '/'), needs.replace('|', '/'), '; '.join(parts) or '**none**', pre))

"""C03 - sequential batching is an exact, order-preserving partition.

E-enum: full product N x batch_size x buckets x mode x preprocessor chain; one dict with four
feature schemas; oracle = reference partition (mc/ref/batching.py) of the independently
preprocessed example list.
"""
import itertools

import numpy as np

from mc import core
from mc.core import require, Violation
from mc.ref import batching as ref

PROPERTY = 'C03'
LEVEL = 'exploration'

MASK = '__mask__'


def make_raw(n, seed):
  o = seed % 5
  return {
      'i': (np.arange(n, dtype=np.int32) * 3 + 1 + o),
      'f': (np.arange(n * 6, dtype=np.float32).reshape(n, 2, 3) + 0.5 + o),
      'b': np.ones((n,), dtype=np.bool_),
      'u': ((np.arange(n, dtype=np.uint8) % 200) + 1 + o).reshape(n, 1).astype(np.uint8),
      # fixed-width string / unicode / complex features: "zero" is the empty string / 0j
      's': np.array([b'k%d' % ((i + o) % 90) for i in range(n)], dtype='S3'),
      't': np.array(['u%d' % ((i + o) % 9) for i in range(n)], dtype='U2').reshape(n, 1),
      'c': (np.arange(n, dtype=np.complex64) + 1 + 1j * (o + 1)),
      # memory layouts other than C-contiguous: Fortran order, a strided view of a larger array, a read-only array
      'g': np.asfortranarray(np.arange(n * 4, dtype=np.float64).reshape(n, 2, 2) + 1 + o),
      'h': (np.arange(2 * n * 3, dtype=np.int16).reshape(2 * n, 3) + 1 + o)[::2],
      'r': _readonly(np.arange(n, dtype=np.float32) * 0.25 + 1 + o),
      # non-native byte order (IDX / network-order files read with np.frombuffer) and a structured dtype with such a field
      'be': (np.arange(n, dtype=np.int32) * 5 + 2 + o).astype('>i4'),
      'bf': (np.arange(n * 2, dtype=np.float64).reshape(n, 2) * 0.5 + 1 + o).astype('>f8'),
      'st': np.array([((i + 1 + o) % 60000, 0.5 * i + 1) for i in range(n)], dtype=[('a', '>u2'), ('b', '<f4')]),
  }


def _readonly(a):
  a.flags.writeable = False
  return a


def _add(x):
  return {**x, 'z': x['i'] * 2 + 1}


def _cast(x):
  return {**x, 'i': x['i'].astype(np.int64) + 1}


def _cast_z(x):
  return {**x, 'z': x['z'].astype(np.float64) * 0.5 + 1}


def _inplace(x):
  """A preprocessing fn that modifies the dict it is given (the library documents that it guards against these)."""
  x['z'] = x['i'] * 2 + 1
  x['i'] = x['i'].astype(np.int64) + 1
  return x


def _ident(x):
  """Returns the very dict it was given."""
  return x


def _select(x):
  """Builds a FRESH dict holding only the features the model needs (anything else it was handed is not forwarded)."""
  return {'i': x['i'], 'f': x['f'] * 2}


CHAINS = {'none': [], 'add': [_add], 'cast': [_cast], 'add_cast': [_add, _cast_z], 'cast_add': [_cast, _add],
          'inplace': [_inplace], 'ident_inplace': [_ident, _inplace], 'select': [_select]}


def ref_processed(raw, chain):
  """Independent per-feature computation of the preprocessed table."""
  out = {k: v.copy() for k, v in raw.items()}
  if chain == 'add':
    out['z'] = raw['i'] * 2 + 1
  elif chain == 'cast':
    out['i'] = raw['i'].astype(np.int64) + 1
  elif chain == 'add_cast':
    out['z'] = (raw['i'] * 2 + 1).astype(np.float64) * 0.5 + 1
  elif chain == 'cast_add':
    out['i'] = raw['i'].astype(np.int64) + 1
    out['z'] = out['i'] * 2 + 1
  elif chain in ('inplace', 'ident_inplace'):
    out['z'] = raw['i'] * 2 + 1
    out['i'] = raw['i'].astype(np.int64) + 1
  elif chain == 'select':
    out = {'i': raw['i'].copy(), 'f': raw['f'] * 2}
  return out


def same(a, b):
  return a.dtype == b.dtype and a.shape == b.shape and a.tobytes() == b.tobytes()


class _UserCodeFailure(Exception):
  pass


def run_case(case):
  import fedjax
  from fedjax.core import client_datasets as cds
  n, bs, buckets, mode, chain = case['N'], case['B'], case['buckets'], case['mode'], case['chain']
  seed = case.get('seed', 0)
  fns_list = list(CHAINS[chain])
  # the chain may be handed over as any iterable: a list (which the caller extends afterwards), a generator, an iterator
  how = case.get('fns_as', 'list')
  pre = cds.BatchPreprocessor({'list': lambda f: f, 'gen': lambda f: (g for g in f), 'iter': iter, 'tuple': tuple,
                               'append': lambda f: f[:0]}[how](fns_list))
  if how == 'append':
    for g in fns_list:
      pre = pre.append(g)
  if how == 'list':
    fns_list.append(lambda x: {**x, 'i': x['i'] * 0})   # the caller's list changes after the preprocessor was built
  if case.get('via'):
    # the dataset is a (stepped / reversed / nested) slice of a larger one; the reference slices the numpy table
    from mc.checks.c04_shuffle_batching import VIAS
    big, slices = VIAS[case['via']]
    raw = make_raw(big, seed)
    ds = fedjax.ClientDataset(raw, pre)
    snap = {k: v.copy() for k, v in raw.items()}
    sel = snap
    for sl in slices:
      ds = ds[slice(*sl)]
      sel = {k: v[slice(*sl)] for k, v in sel.items()}
    n = len(sel['i'])
    require(len(ds) == n, 'len() of a sliced dataset differs from the number of rows it holds', n, len(ds))
    raw_of_ds = ds.raw_examples
    snap = {k: np.ascontiguousarray(v).copy() for k, v in sel.items()}
  else:
    raw = make_raw(n, seed)
    if case.get('clone') == 'pickle':
      # numpy's own pickle support converts non-native byte orders to native: those features are left out here
      raw = {k: v for k, v in raw.items() if k not in ('be', 'bf', 'st')}
    snap = {k: v.copy() for k, v in raw.items()}
    ds = fedjax.ClientDataset(raw, pre)
  want = ref_processed(snap, chain)
  if mode == 'padded':
    if case.get('hp'):
      view = ds.padded_batch(cds.PaddedBatchHParams(batch_size=bs, num_batch_size_buckets=buckets))
    else:
      view = ds.padded_batch(batch_size=bs, num_batch_size_buckets=buckets)
  else:
    drop = mode == 'plain_drop'
    if case.get('hp'):
      view = ds.batch(cds.BatchHParams(batch_size=bs, drop_remainder=drop))
    else:
      view = ds.batch(batch_size=bs, drop_remainder=drop)
  if case.get('clone'):
    # the dataset / view objects go through copy.copy, copy.deepcopy or a pickle round trip before they are used
    import copy
    import pickle
    cl = {'copy': copy.copy, 'deepcopy': copy.deepcopy, 'pickle': lambda o: pickle.loads(pickle.dumps(o))}[case['clone']]
    ds2 = cl(ds)
    require(len(ds2) == len(ds), 'a cloned dataset reports another size', len(ds), len(ds2))
    view = cl(view)
    ds_for_b = ds2
  else:
    ds_for_b = ds
  # a view whose very FIRST iteration is abandoned after one batch, then iterated fully several times
  if mode == 'padded':
    view_b = ds_for_b.padded_batch(batch_size=bs, num_batch_size_buckets=buckets)
  else:
    view_b = ds_for_b.batch(batch_size=bs, drop_remainder=(mode == 'plain_drop'))
  itb = iter(view_b)
  next(itb, None)
  del itb
  passes_b = [list(view_b) for _ in range(3)]
  first = list(view)
  for pno, pb in enumerate(passes_b):
    require(len(pb) == len(first) and all(set(a) == set(b2) and all(same(np.asarray(a[k]), np.asarray(b2[k])) for k in a)
                                          for a, b2 in zip(pb, first)),
            'full pass %d of a view whose first iteration was abandoned differs from a fresh view' % (pno + 1),
            len(first), len(pb))
  # histories on ONE view object: an abandoned iteration, two interleaved iterators, then a full iteration again
  it = iter(view)
  next(it, None)
  del it
  inter = list(zip(view, view))
  for a, b2 in inter:
    require(set(a) == set(b2) and all(same(np.asarray(a[k]), np.asarray(b2[k])) for k in a),
            'two interleaved iterators over the same view disagree')
  require(len(inter) == len(first), 'interleaved iteration has a different number of batches', len(first), len(inter))
  second = list(view)
  require(len(first) == len(second), 'second iteration has a different number of batches', len(first), len(second))
  for b1, b2 in zip(first, second):
    require(set(b1) == set(b2) and all(same(np.asarray(b1[k]), np.asarray(b2[k])) for k in b1),
            'iterating the same view again gives different batches')
  # a preprocessing fn (user code) that fails once, on its k-th call: the iteration dies there; iterating the same view again
  # gives the full, unchanged sequence of batches (no cursor, buffer or partial batch survives the failed pass)
  if not case.get('via') and not case.get('clone') and len(first) > 0:
    for fail_at in sorted({0, len(first) - 1, len(first) // 2}):
      calls = {'n': 0, 'armed': True}

      def flaky(x, calls=calls, fail_at=fail_at):
        calls['n'] += 1
        if calls['armed'] and calls['n'] == fail_at + 1:
          calls['armed'] = False
          raise _UserCodeFailure()
        return x
      ds_f = fedjax.ClientDataset(ds.raw_examples, pre.append(flaky))
      view_f = (ds_f.padded_batch(batch_size=bs, num_batch_size_buckets=buckets) if mode == 'padded' else
                ds_f.batch(batch_size=bs, drop_remainder=(mode == 'plain_drop')))
      got_f = []
      try:
        for b_ in view_f:
          got_f.append(b_)
        raise Violation('an exception raised by a preprocessing fn was swallowed by the batch iterator')
      except _UserCodeFailure:
        pass
      require(len(got_f) <= fail_at, 'batches were yielded past a failing preprocessing call', fail_at, len(got_f))
      again = list(view_f)
      require(len(again) == len(first) and all(set(a) == set(b2) and all(same(np.asarray(a[k]), np.asarray(b2[k])) for k in a)
                                                for a, b2 in zip(again, first)),
              'after a pass that died in a preprocessing fn (call %d) the same view yields other batches' % (fail_at + 1), len(first), len(again))
  require(set(ds.raw_examples) == set(snap), 'the dataset\'s raw_examples gained or lost features during batching',
          sorted(snap), sorted(ds.raw_examples))
  for k in snap:
    require(same(np.ascontiguousarray(ds.raw_examples[k]), snap[k]), 'raw_examples[%r] was mutated by batching' % k)

  if mode == 'padded':
    sizes = ref.padded_sizes(n, bs, buckets)
    chunks = ref.seq_chunks(n, bs)
  else:
    chunks = ref.plain_batches(n, bs, mode == 'plain_drop')
    sizes = [e - s for s, e in chunks]
  require(len(first) == len(chunks), 'wrong number of batches', len(chunks), len(first))
  feats = set(want)
  for bi, (batch, (s, e), size) in enumerate(zip(first, chunks, sizes)):
    real = e - s
    keys = set(batch)
    if mode == 'padded':
      require(MASK in keys, 'padded batch %d lacks the mask feature' % bi)
      mask = np.asarray(batch[MASK])
      require(mask.dtype == np.bool_ and mask.shape == (size,),
              'batch %d: mask shape/dtype' % bi, [size, 'bool'], [list(mask.shape), str(mask.dtype)])
      require(mask.tolist() == [True] * real + [False] * (size - real),
              'batch %d: mask is not True on exactly the real rows (a prefix)' % bi,
              [True] * real + [False] * (size - real), mask.tolist())
      keys = keys - {MASK}
    require(keys == feats, 'batch %d: feature set differs' % bi, sorted(feats), sorted(keys))
    if bi < len(first) - 1:
      require(real == bs, 'non-final batch is not full')
    for k in feats:
      v = np.asarray(batch[k])
      w = want[k]
      require(v.dtype == w.dtype, 'batch %d feature %s: dtype changed' % (bi, k), str(w.dtype), str(v.dtype))
      require(v.shape == (size,) + w.shape[1:], 'batch %d feature %s: shape' % (bi, k),
              [size] + list(w.shape[1:]), list(v.shape))
      require(same(np.ascontiguousarray(v[:real]), np.ascontiguousarray(w[s:e])),
              'batch %d feature %s: real rows differ from examples [%d:%d)' % (bi, k, s, e),
              core.jsonable(w[s:e].tolist()), core.jsonable(v[:real].tolist()))
      require(same(np.ascontiguousarray(v[real:]), np.zeros(v[real:].shape, v.dtype)),
              'batch %d feature %s: padded rows are not all zero' % (bi, k), 0, core.jsonable(v[real:].tolist()))
  return {'outcome': [len(first), sizes], 'nontrivial': (n % bs != 0) or (mode == 'padded' and buckets > 1)}


def _flat(batches):
  return [{k: (str(np.asarray(v).dtype), list(np.asarray(v).shape), np.asarray(v).tobytes().hex()) for k, v in b.items()}
          for b in batches]


def routes_case(case):
  """Every way of expressing one effective hyper-parameter assignment (kwargs / object / object + overrides, including
  overrides back to a default value) must give the batches of the plain object route, which 'seq' compares with the
  reference partition; the batch count and sizes are compared with the reference here as well."""
  import fedjax
  from fedjax.core import client_datasets as cds
  from mc import routes
  n, mode = case['N'], case['mode']
  ds = fedjax.ClientDataset(make_raw(n, case.get('seed', 0)))
  if mode == 'padded':
    domain, cls, fn = {'batch_size': [2, 4], 'num_batch_size_buckets': [1, 2, 3]}, cds.PaddedBatchHParams, ds.padded_batch
  else:
    domain, cls, fn = {'batch_size': [2, 3], 'drop_remainder': [False, True]}, cds.BatchHParams, ds.batch
  evals, outs = 0, set()
  for eff in routes.assignments(domain):
    if 'effective' in case and case['effective'] != eff:
      continue
    want = None
    for label, base, over in routes.routes(eff, domain):
      if 'route' in case and case['route'] != [label, base, over]:
        if label != 'object':
          continue
      nc = dict(case, effective=eff, route=[label, base, over])
      got = _flat(list(routes.invoke(fn, cls, base, over)))
      if label == 'object' or want is None:
        want = _flat(list(routes.invoke(fn, cls, eff, {})))
        if mode == 'padded':
          sizes = ref.padded_sizes(n, eff['batch_size'], eff['num_batch_size_buckets'])
        else:
          sizes = [e - s for s, e in ref.plain_batches(n, eff['batch_size'], eff['drop_remainder'])]
        require([b['i'][1][0] for b in want] == sizes, 'object route: batch sizes differ from the reference', sizes,
                [b['i'][1][0] for b in want], case=nc)
      require(got == want, 'invocation route %s (base %r, overrides %r) does not give the batches of the effective '
              'hyper-parameters %r' % (label, base, over, eff), [b['i'][1][0] for b in want], [b['i'][1][0] for b in got],
              case=nc)
      evals += 1
      outs.add(core.digest([sorted(eff.items()), [b['i'][1][0] for b in got]]))
  return {'evals': evals, 'outcomes': sorted(outs), 'nontrivial': True}


SUBS = {'seq': run_case, 'routes': routes_case}


def plan(ctx):
  thorough = ctx.tier == 'thorough'
  ns = range(0, 41) if thorough else range(0, 18)
  bss = (list(range(1, 34)) + [40, 64]) if thorough else (list(range(1, 10)) + [16, 20])
  bucket_list = range(1, 7) if thorough else range(1, 6)
  chains = list(CHAINS)
  ctx.rule = ('full product N x batch_size x {padded x buckets, plain keep/drop remainder} x preprocessor chain '
              '(x hparams-object vs kwargs invocation for the first chain); distinct = distinct case tuples; '
              'non-trivial = N mod batch_size != 0 or (padded and buckets > 1); routes: every (base object, keyword '
              'overrides) pair over a 2x3 / 2x2 value domain that expresses the same effective hyper-parameters')
  ctx.assumptions += ['numpy slicing/concatenation are trusted', 'feature values are distinct and non-zero '
                      '(offset by VERIF_SEED) so a lost, duplicated, reordered or non-zero padded row is visible']

  def gen():
    for n, bs in itertools.product(ns, bss):
      for chain in chains:
        for hp in ((False, True) if chain == 'none' else (False,)):
          for buckets in bucket_list:
            yield {'N': n, 'B': bs, 'buckets': buckets, 'mode': 'padded', 'chain': chain, 'hp': hp,
                   'seed': ctx.seed}
          for mode in ('plain_keep', 'plain_drop'):
            yield {'N': n, 'B': bs, 'buckets': 1, 'mode': mode, 'chain': chain, 'hp': hp, 'seed': ctx.seed}
  ctx.run('seq', gen(), reverse_pass=True)
  ctx.run('seq', [{'N': n, 'B': bs, 'buckets': k, 'mode': m, 'chain': ch, 'seed': ctx.seed, 'fns_as': fa}
                  for fa in ('gen', 'iter', 'tuple', 'append') for n in (0, 3, 5, 7) for bs in (1, 2, 4) for ch in ('add_cast', 'cast_add', 'inplace')
                  for m, k in (('padded', 2), ('plain_keep', 1), ('plain_drop', 1))])
  ctx.run('seq', [{'N': n, 'B': bs, 'buckets': k, 'mode': m, 'chain': ch, 'seed': ctx.seed, 'clone': cl}
                  for cl in ('copy', 'deepcopy', 'pickle') for n in (0, 1, 5, 7) for bs in (1, 2, 4) for ch in ('none', 'cast_add', 'inplace')
                  for m, k in (('padded', 2), ('plain_keep', 1), ('plain_drop', 1))])
  from mc.checks.c04_shuffle_batching import VIAS
  ctx.run('seq', [{'N': -1, 'via': via, 'B': bs, 'buckets': k, 'mode': mode, 'chain': chain, 'seed': ctx.seed}
                  for via in VIAS for bs in (1, 2, 3, 4, 5) for chain in ('none', 'cast_add')
                  for mode, ks in (('padded', (1, 2, 3)), ('plain_keep', (1,)), ('plain_drop', (1,))) for k in ks])
  # a few sizes far above the exhaustively covered range (chunking thresholds in an implementation would sit there)
  ctx.run('seq', [{'N': n, 'B': b, 'buckets': k, 'mode': m, 'chain': 'cast_add', 'seed': ctx.seed}
                  for n, b in ((1000, 64), (4097, 512), (65537, 4096)) for m, k in (('padded', 3), ('plain_keep', 1), ('plain_drop', 1))])
  ctx.run('routes', [{'N': n, 'mode': m, 'seed': ctx.seed} for n in ((0, 1, 5, 7, 9) if thorough else (0, 5, 7))
                     for m in ('padded', 'plain')])
  ctx.extra['bounds'] = {'N': [min(ns), max(ns)], 'batch_size': [min(bss), max(bss)],
                         'buckets': [min(bucket_list), max(bucket_list)], 'chains': chains}

"""C04 - shuffled batching: without replacement, exact count, seeded.

E-enum over hyper-parameters and over *every answer sequence* of the shuffle RNG (scripted
RandomState seam) for small N; all seeds of a finite set through a recording seam for larger N.
"""
import itertools
import math

import numpy as np

from mc import core, seams
from mc.core import require, HarnessError
from mc.ref import batching as ref

PROPERTY = 'C04'
LEVEL = 'exploration'


def make_ds(n, chain):
  import fedjax
  from fedjax.core import client_datasets as cds
  raw = {'i': np.arange(n, dtype=np.int32), 'f': (np.arange(n, dtype=np.float32) * 0.5 + 1).reshape(n, 1)}
  fns = []
  if chain:
    fns = [lambda x: {**x, 'z': x['i'] * 2 + 1}]
  return fedjax.ClientDataset(raw, cds.BatchPreprocessor(fns)), raw


def horizon(n, b, want):
  """Number of batches to take from a stream (finite count or a cut of an infinite stream)."""
  if want is not None:
    return want
  return 3 * math.ceil(n / b) + 2


def take(view, k, infinite):
  it = iter(view)
  if infinite:
    return list(itertools.islice(it, k))
  out = list(itertools.islice(it, k + 3))  # would expose extra batches
  return out


def check_stream(batches, n, b, chain, hp, want, skip):
  """Checks everything that does not depend on which permutation was drawn. Returns index stream."""
  if want is not None:
    require(len(batches) == want, 'number of batches differs from the documented count', want, len(batches))
  stream = []
  for k, batch in enumerate(batches):
    idx = np.asarray(batch['i'])
    require(idx.shape == (b,), 'batch %d does not have exactly batch_size rows' % k, b, list(idx.shape))
    require(np.asarray(batch['f']).shape == (b, 1) and
            np.array_equal(np.asarray(batch['f'])[:, 0], idx.astype(np.float32) * 0.5 + 1),
            'batch %d: features of one example are not kept together' % k)
    if chain:
      require('z' in batch and np.array_equal(np.asarray(batch['z']), idx * 2 + 1),
              'batch %d: preprocessor not applied to the drawn examples' % k)
    require(bool(np.all((idx >= 0) & (idx < n))), 'batch %d: index outside the dataset' % k)
    stream.extend(int(v) for v in idx)
  # windows of N
  full = len(stream) // n
  for w in range(full):
    win = stream[w * n:(w + 1) * n]
    require(sorted(win) == list(range(n)), 'window %d of the draw stream is not a permutation' % w,
            'a permutation of range(%d)' % n, win)
  tail = stream[full * n:]
  require(len(set(tail)) == len(tail), 'incomplete final window repeats an example', None, tail)
  # usage counts at every batch boundary
  counts = [0] * n
  for k in range(len(batches)):
    for v in stream[k * b:(k + 1) * b]:
      counts[v] += 1
    require(max(counts) - min(counts) <= 1, 'usage counts differ by more than one after batch %d' % k,
            None, counts)
  cover = math.ceil(n / b)
  if len(batches) >= cover:
    require(set(stream[:cover * b]) == set(range(n)), 'first ceil(N/B) batches do not cover the dataset')
  if skip:
    require(stream == [j % n for j in range(len(stream))], 'skip_shuffle stream is not the cyclic original order',
            [j % n for j in range(len(stream))], stream)
  return stream


def scripted(case):
  """One configuration; all scripts of permutations for the refills that can occur (or the one in case)."""
  from fedjax.core import client_datasets as cds
  n, b = case['N'], case['B']
  ep, st, drop, skip, chain = case['epochs'], case['steps'], case['drop'], case['skip'], case.get('chain', False)
  want = ref.shuffle_num_steps(n, b, ep, st, drop)
  k = horizon(n, b, want)
  refills = math.ceil(k * b / n) if k else 0
  max_ref = case.get('max_refills', 2)
  depth = 0 if skip else min(refills, max_ref)
  perms = list(itertools.permutations(range(n)))
  scripts = [tuple(case['script'])] if 'script' in case else itertools.product(perms, repeat=depth)
  ds, _ = make_ds(n, chain)
  hp = cds.ShuffleRepeatBatchHParams(batch_size=b, num_epochs=ep, num_steps=st, drop_remainder=drop,
                                     seed=case.get('seed', 3), skip_shuffle=skip)
  evals, outcomes = 0, set()
  for script in scripts:
    script = [list(p) for p in script]
    made = []

    def factory(seed=None, script=script, made=made):
      r = seams.ScriptedRandomState(perms=script)
      r.seed_arg = seed
      made.append(r)
      return r
    narrowed = dict(case, script=script)
    try:
      with seams.client_datasets_rng(factory):
        view = ds.shuffle_repeat_batch(hp)
        batches = take(view, k, want is None)
        again = take(view, k, want is None)
      if not made:
        # the implementation no longer obtains its generator through np.random.RandomState: the scripted enumeration
        # cannot drive it; reported as a cap (the unscripted sub-spaces still judge the behaviour)
        return {'evals': evals, 'cap': 'RandomState seam not reached: scripted enumeration skipped', 'nontrivial': False}
      require(all(m.seed_arg == hp.seed for m in made), 'RandomState not constructed from hparams.seed',
              hp.seed, [m.seed_arg for m in made])
      stream = check_stream(batches, n, b, chain, hp, want, skip)
      rng = made[0]
      windows = math.ceil(len(stream) / n) if stream else 0
      if skip:
        require(rng.shuffle_calls == 0, 'shuffle called although skip_shuffle=True', 0, rng.shuffle_calls)
      else:
        require(rng.shuffle_calls >= windows,
                'fewer re-shuffles than windows started (successive windows are not re-shuffled)',
                windows, rng.shuffle_calls)
        if rng.shuffle_calls == windows:
          # one shuffle per window: window w must be the scripted permutation applied to the buffer order
          buf = list(range(n))
          for w in range(windows):
            p = script[w] if w < len(script) else list(range(n))
            buf = [buf[s] for s in p]
            got = stream[w * n:(w + 1) * n]
            require(got == buf[:len(got)], 'window %d is not the RNG permutation applied to the buffer' % w,
                    buf[:len(got)], got)
      s2 = [int(v) for bt in again for v in np.asarray(bt['i'])]
      require(s2 == stream, 'second iteration of the same view differs', stream, s2)
    except core.Violation as v:
      v.case = v.case or narrowed
      raise
    evals += 1
    outcomes.add(core.digest(stream))
  return {'evals': evals, 'outcomes': sorted(outcomes), 'nontrivial': (n % b != 0 or b > n) and not skip,
          'stats': {'scripts': evals}}


def seeded(case):
  """Real RandomState through the recording seam; all seeds of the set."""
  from fedjax.core import client_datasets as cds
  n, b = case['N'], case['B']
  ep, st, drop, skip, chain = case['epochs'], case['steps'], case['drop'], case['skip'], case.get('chain', False)
  want = ref.shuffle_num_steps(n, b, ep, st, drop)
  k = horizon(n, b, want)
  ds, _ = make_ds(n, chain)
  streams = {}
  evals = 0
  seam_missed = []
  for seed in case['seeds']:
    narrowed = dict(case, seeds=[seed])
    try:
      log = []
      hp = cds.ShuffleRepeatBatchHParams(batch_size=b, num_epochs=ep, num_steps=st, drop_remainder=drop,
                                         seed=seed, skip_shuffle=skip)
      with seams.client_datasets_rng(lambda s=None, log=log: seams.RecordingRandomState(s, log)):
        view = ds.shuffle_repeat_batch(hp)
        batches = take(view, k, want is None)
      stream = check_stream(batches, n, b, chain, hp, want, skip)
      seeds_used = [e[1] for e in log if e[0] == 'seed']
      if seeds_used:  # seam reached (otherwise only the seam-free assertions below apply)
        require(seeds_used == [seed], 'RandomState not constructed from hparams.seed', [seed], seeds_used)
        shuffles = sum(1 for e in log if e[0] == 'shuffle')
        windows = math.ceil(len(stream) / n) if stream else 0
        require(shuffles == 0 if skip else shuffles >= windows, 'fewer re-shuffles than windows started',
                0 if skip else windows, shuffles)
      else:
        seam_missed.append(1)
      # unpatched: repeated iteration and a separately built view agree
      it0 = iter(view)
      next(it0, None)  # an abandoned iteration of the same view must not influence the next ones
      del it0
      view2 = ds.shuffle_repeat_batch(batch_size=b, num_epochs=ep, num_steps=st, drop_remainder=drop, seed=seed,
                                      skip_shuffle=skip)
      view3 = ds.shuffle_repeat_batch(batch_size=b, num_epochs=ep, num_steps=st, drop_remainder=drop, seed=seed,
                                      skip_shuffle=skip)
      it3 = iter(view3)
      next(it3, None)  # the view's very first iteration is abandoned
      del it3
      for nm, v in (('second iteration', view), ('separately built view with the same seed', view2),
                    ('view whose first iteration was abandoned', view3)):
        s2 = [int(x) for bt in take(v, k, want is None) for x in np.asarray(bt['i'])]
        require(s2 == stream, nm + ' gives different batches for a fixed seed', stream, s2)
      streams[seed] = stream
    except core.Violation as v:
      v.case = v.case or narrowed
      raise
    evals += 1
  info = {'evals': evals, 'outcomes': [core.digest(s) for s in streams.values()],
          'nontrivial': n % b != 0 or b > n}
  if seam_missed:
    info['cap'] = 'RandomState recording seam not reached: call-count assertions skipped'
  # non-triviality of the shuffle over the seed set (deterministic given the seeds)
  if not skip and n >= 5 and len(case['seeds']) >= 4:
    long = [s for s in streams.values() if len(s) >= n]
    if long:
      require(any(s[:n] != list(range(n)) for s in long), 'no seed shuffles the first window')
      require(len({tuple(s[:n]) for s in long}) > 1, 'all seeds give the same order')
    long2 = [s for s in streams.values() if len(s) >= 2 * n]
    if long2:
      require(any(s[:n] != s[n:2 * n] for s in long2), 'successive windows are never re-shuffled')
  return info


def interleave(case):
  """Seeded views are independent streams: iterating two of them in lock-step (or nesting one inside the other, or
  drawing from numpy's global generator in between) must give each exactly its stand-alone batches. No seam is used."""
  n1, n2, b = case['N1'], case['N2'], case['B']
  ds1, _ = make_ds(n1, False)
  ds2, _ = make_ds(n2, True)
  kw1 = dict(batch_size=b, num_epochs=case['epochs'], seed=case['seed1'])
  kw2 = dict(batch_size=max(1, b - 1), num_epochs=case['epochs'], seed=case['seed2'])
  alone1 = [np.asarray(x['i']).tolist() for x in ds1.shuffle_repeat_batch(**kw1)]
  alone2 = [np.asarray(x['i']).tolist() for x in ds2.shuffle_repeat_batch(**kw2)]
  z = list(itertools.zip_longest(ds1.shuffle_repeat_batch(**kw1), ds2.shuffle_repeat_batch(**kw2)))
  got1 = [np.asarray(a['i']).tolist() for a, _ in z if a is not None]
  got2 = [np.asarray(c['i']).tolist() for _, c in z if c is not None]
  require(got1 == alone1 and got2 == alone2, 'two seeded views iterated in lock-step do not reproduce their stand-alone '
          'batches (shared generator state)', [alone1, alone2], [got1, got2])
  # same seed: two iterators of ONE view, and two clients batched with the same seeded hparams
  v = ds1.shuffle_repeat_batch(**kw1)
  zz = list(zip(v, v))
  require([np.asarray(a['i']).tolist() for a, _ in zz] == alone1 and [np.asarray(c['i']).tolist() for _, c in zz] == alone1,
          'two interleaved iterators of one seeded view do not both reproduce its stand-alone batches', alone1,
          [[np.asarray(a['i']).tolist(), np.asarray(c['i']).tolist()] for a, c in zz])
  kw2s = dict(kw2, seed=case['seed1'])
  alone2s = [np.asarray(x['i']).tolist() for x in ds2.shuffle_repeat_batch(**kw2s)]
  it1 = iter(ds1.shuffle_repeat_batch(**kw1))
  head = [np.asarray(next(it1)['i']).tolist()] if alone1 else []
  mid = [np.asarray(x['i']).tolist() for x in ds2.shuffle_repeat_batch(**kw2s)]
  rest = [np.asarray(x['i']).tolist() for x in it1]
  require(mid == alone2s and head + rest == alone1, 'a seeded stream suspended while another stream WITH THE SAME SEED ran '
          'does not reproduce its stand-alone batches', [alone1, alone2s], [head + rest, mid])
  nested = []
  for a in ds1.shuffle_repeat_batch(**kw1):
    nested.append(np.asarray(a['i']).tolist())
    inner = [np.asarray(c['i']).tolist() for c in ds2.shuffle_repeat_batch(**kw2)]
    require(inner == alone2, 'a seeded view iterated inside the loop over another one differs from its stand-alone batches',
            alone2, inner)
    np.random.seed(len(nested))
    np.random.rand(3)
  require(nested == alone1, 'a seeded stream is disturbed by other streams / numpy\'s global generator used between its '
          'batches', alone1, nested)
  return {'evals': 3, 'nontrivial': case['epochs'] > 1, 'outcome': [alone1[:2], alone2[:2]]}


SUBS = {'interleave': interleave, 'scripted': scripted, 'seeded': seeded}


def configs(ns, bs, epochs, steps):
  for n, b, ep, st, drop in itertools.product(ns, bs, epochs, steps, (False, True)):
    if ep is None and st is None and drop:
      continue
    yield n, b, ep, st, drop


def plan(ctx):
  th = ctx.tier == 'thorough'
  epochs = [None, 1, 2, 3]
  steps = [None, 0, 1, 2, 5, 9]
  ctx.rule = ('scripted: every (N<=4, B, num_epochs, num_steps, drop_remainder, skip_shuffle) x every sequence of '
              'permutations the RNG can answer for the first refills; seeded: N<=8 x B<=10 x all hparams x seed set '
              'with the real RandomState behind a recording seam; distinct = configuration tuple; non-trivial = '
              'N mod B != 0 or B > N (a batch straddles a refill)')
  ctx.assumptions += ['infinite streams (num_epochs=None and num_steps=None) are cut after 3*ceil(N/B)+2 batches',
                      'RandomState.shuffle answers some permutation (all of them are enumerated for N<=4)']
  ctx.run('interleave', [{'N1': n1, 'N2': n2, 'B': b, 'epochs': ep, 'seed1': s1, 'seed2': s1 + 1}
                         for n1 in (3, 5) for n2 in (2, 4) for b in (2, 3) for ep in (1, 2, 3) for s1 in (0, 7)])
  sc = []
  for n, b, ep, st, drop in configs(range(1, 5), range(1, 11) if th else [1, 2, 3, 4, 5, 7, 10], epochs, steps):
    max_ref = 3 if (n <= 3 and th) else 2
    if n == 4 and not th and b > 5:
      max_ref = 1
    sc.append({'N': n, 'B': b, 'epochs': ep, 'steps': st, 'drop': drop, 'skip': False, 'max_refills': max_ref,
               'chain': (n + b) % 2 == 0})
  if th:
    for n, b, ep, st, drop in configs([5], [1, 2, 3, 4, 5, 7], epochs, steps):
      sc.append({'N': n, 'B': b, 'epochs': ep, 'steps': st, 'drop': drop, 'skip': False, 'max_refills': 1, 'chain': False})
  for n, b, ep, st, drop in configs(range(1, 9), range(1, 11), epochs, steps):
    sc.append({'N': n, 'B': b, 'epochs': ep, 'steps': st, 'drop': drop, 'skip': True})
  ctx.pmap('scripted', sc, chunk=64)
  seeds = list(range(32)) if th else list(range(5))
  se = []
  for n, b, ep, st, drop in configs(range(1, 13) if th else range(1, 9), range(1, 14) if th else range(1, 11),
                                    epochs, steps):
    for skip in (False, True):
      se.append({'N': n, 'B': b, 'epochs': ep, 'steps': st, 'drop': drop, 'skip': skip, 'seeds': seeds,
                 'chain': n % 2 == 1})
  ctx.pmap('seeded', se, chunk=64)
  ctx.extra['bounds'] = {'scripted_N': [1, 4], 'seeded_N': [1, 12 if th else 8], 'seeds': len(seeds),
                         'epochs': [str(e) for e in epochs], 'steps': [str(s) for s in steps]}

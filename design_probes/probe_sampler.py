import itertools, numpy as np, jax
import fedjax
from fedjax.core import in_memory_federated_data as im, client_samplers as cs
U = [b'a', b'a\x00', b'ab', b'b', b'b\x00\x00']
fd = im.InMemoryFederatedData({c: {'x': np.arange(i+1)} for i,c in enumerate(U)})
bad=0; n=0
def obs(s):
    return [(c, ds.all_examples()['x'].tolist(), np.asarray(jax.random.key_data(k) if hasattr(k.dtype,'name') and 'key' in k.dtype.name else k).tolist()) for c,ds,k in s]
for seed in (0,1,7):
  for k in range(1,6):
    T={r: obs(cs.UniformGetClientSampler(fd,k,seed,start_round_num=r).sample()) for r in range(7)}
    for r,v in T.items():
        ids=[c for c,_,_ in v]; keys=[tuple(kk) for _,_,kk in v]
        if len(set(ids))!=k or any(i not in U for i in ids) or len(set(keys))!=k: bad+=1; print('within', seed,k,r,v)
    allkeys=[tuple(kk) for r in T for _,_,kk in T[r]]
    if len(set(allkeys))!=len(allkeys): bad+=1; print('keys across rounds collide', seed, k)
    opsA=['s']+[('set',r) for r in range(6)]
    for seq in itertools.product(opsA, repeat=3):
        s=cs.UniformGetClientSampler(fd,k,seed); cur=0
        for op in seq:
            n+=1
            if op=='s':
                if obs(s.sample())!=T[cur]: bad+=1; print('hist',seed,k,seq)
                cur+=1
            else:
                s.set_round_num(op[1]); cur=op[1]
print('sampler cases', n, 'bad', bad)
# streaming
bad=0
for buf in (1,2,6):
  for sseed in (0,3):
    for k in (1,2,3):
      base=cs.UniformShuffledClientSampler(fd.shuffled_clients(buf,sseed),k)
      rounds=[obs(base.sample()) for _ in range(7)]
      for r in range(5):
          s=cs.UniformShuffledClientSampler(fd.shuffled_clients(buf,sseed),k,start_round_num=r)
          for j in range(2):
              if obs(s.sample())!=rounds[r+j]: bad+=1; print('stream',buf,sseed,k,r,j)
print('stream bad', bad)

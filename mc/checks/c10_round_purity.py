"""C10 - a training round is a pure function of (server state, clients).

E-graph: for every built-in algorithm, all cohort histories up to a depth bound are executed on the
real algorithm object; on every transition: the input state keeps its value and stays readable, a
second identical call gives the same result, a save/load round trip of the state continues
identically, and a fresh algorithm object replaying only this history agrees with the long-lived one.
Compression aggregators: same with their key-carrying state.
"""
import itertools
import os
import shutil
import tempfile

import numpy as np

from mc import algos, core, systems
from mc.core import require, Violation

PROPERTY = 'C10'
LEVEL = 'model_checking'

# index 3: client id of A, other data; C: a cohort without any example
COHORTS = {'A': [0], 'B': [1], 'AB': [0, 1], 'AC': [0, 2], 'BA': [1, 0], 'A2': [3], 'C': [2]}
SYSTEMS = {
    'fed_avg': ('fed_avg', {}),
    'fed_prox': ('fed_prox', {'mu': 0.5}),
    'mime': ('mime', {}),
    'mime_lite': ('mime_lite', {'clip': 0.25}),
    'agnostic': ('agnostic', {'domains': 2, 'window': 2}),
    'hyp_cluster': ('hyp_cluster', {'clusters': 2}),
    'apfl': ('apfl', {}),
    # the batching seed given as a NumPy integer instead of a Python int
    'fed_avg_np_seed': ('fed_avg', {'hp': (2, 1, None, 'int64:0')}),
}


def readable_equal(tree, snap, what, nc):
  import jax
  for l in jax.tree_util.tree_leaves(tree):
    if isinstance(l, jax.Array):
      require(not l.is_deleted(), what + ': a leaf of the caller\'s state was invalidated (donated/deleted)', case=nc)
  require(algos.trees_equal(tree, snap, rtol=0, atol=0), what + ': the caller\'s state changed value during the call',
          core.jsonable(jax.tree_util.tree_leaves(snap))[:6], core.jsonable(jax.tree_util.tree_leaves(algos.tree_np(tree)))[:6],
          case=nc)


def same(a, b, what, nc, tol=1e-6):
  import jax
  if not algos.trees_equal(a, b, rtol=tol, atol=tol):
    raise Violation(what, core.jsonable(jax.tree_util.tree_leaves(algos.tree_np(a)))[:8],
                    core.jsonable(jax.tree_util.tree_leaves(algos.tree_np(b)))[:8], case=nc)


def _readonly_apfl(state, pop):
  import fedjax
  import jax.numpy as jnp
  from fedjax.algorithms import apfl as apfl_mod
  if 'apfl_eval' not in _RO:
    model = fedjax.Model(init=lambda rng: algos.jparams(), apply_for_train=lambda p, b, r=None: b['x'] @ p['w'] + p['b'],
                         apply_for_eval=lambda p, b: jnp.stack([b['x'] @ p['w'] + p['b'], -(b['x'] @ p['w'] + p['b'])], -1),
                         train_loss=lambda b, o: (o - b['y']) ** 2, eval_metrics={'acc': fedjax.metrics.Accuracy()})
    _RO['apfl_eval'] = apfl_mod.eval_adaptive_personalized_federated_learning(model, fedjax.PaddedBatchHParams(batch_size=2))
  clients = []
  for cid, ds, _ in pop[:3] + [(b'never-seen', pop[1][1], None)]:
    ex = dict(ds.raw_examples)
    ex['y'] = (np.arange(len(ds)) % 2).astype(np.int32)
    clients.append((cid, fedjax.ClientDataset(ex)))
  return list(_RO['apfl_eval'](state, clients))


_RO = {}


def explore(case):
  sysname, depth = case['system'], case['depth']
  bname, kw = SYSTEMS[sysname]
  alg, init = systems.build(bname, **kw)
  from fedjax.core import serialization
  # inplace_pre: client datasets whose preprocessing fn updates the dict it is handed (the clients passed in keep their value)
  pop = algos.population([2, 3, 0], case.get('seed', 0), inplace_pre=bool(case.get('inplace_pre')))
  raw_snap = [{k: np.array(v, copy=True) for k, v in ds.raw_examples.items()} for _, ds, _ in pop]
  # a returning client id whose local data changed since its last participation
  other = algos.population([2, 3, 0, 3], case.get('seed', 0) + 5)[3]
  pop.append((pop[0][0], other[1], pop[0][2]))
  tmp = tempfile.mkdtemp(prefix='c10_')
  stats = {'states': 1, 'transitions': 0, 'fresh': 0}
  outs = set()
  fresh_depth = case.get('fresh_depth', 1)
  try:
    fresh_root = [None]
    saved_depth = [depth]
    kept_diags = []

    def rec(hist, state):
      if len(hist) >= saved_depth[0]:
        return
      for name, idxs in COHORTS.items():
        h2 = hist + [name]
        if 'history' in case and case['history'][:len(h2)] != h2:
          continue
        nc = dict(case, history=h2)
        cohort = [pop[i] for i in idxs]
        snap = algos.tree_np(state)   # np.array(copy=True): does not pin the device buffers (np.asarray would - a pinned
        path = os.path.join(tmp, 'st')  # buffer cannot be donated, which would hide an invalidated caller state)
        # a round that aborts half way (transient failure in a later client) must leave nothing behind: the retry
        # below is compared with a second call, with the restored copy and with a fresh algorithm object
        if algos.aborted_round(alg, state, cohort):
          stats['aborted'] = stats.get('aborted', 0) + 1
          readable_equal(state, snap, 'after an aborted round', nc)
        new, diag = alg.apply(state, cohort)
        readable_equal(state, snap, 'after apply', nc)
        for (cid_, ds_, _), rs_ in zip(pop, raw_snap):
          require(set(ds_.raw_examples) == set(rs_) and all(np.array_equal(np.asarray(ds_.raw_examples[k_]), rs_[k_]) for k_ in rs_),
                  'the round changed the examples of client %r that was passed in' % (cid_,), case=nc)
        require(sorted(map(repr, diag)) == sorted({repr(c[0]) for c in cohort}), 'the diagnostics do not have exactly one entry per '
                'participating client (entries of other rounds / other objects leaked in)', sorted({repr(c[0]) for c in cohort}),
                sorted(map(repr, diag)), case=nc)
        kept_diags.append((h2, diag, algos.tree_np(diag)))
        serialization.save_state(state, path)
        new_snap, diag_snap = algos.tree_np(new), algos.tree_np(diag)
        # read-only uses of the state between the two calls (personalised evaluation over the whole population, clients that
        # never trained included) must leave it as it is
        if sysname == 'apfl':
          _readonly_apfl(state, pop)
          readable_equal(state, snap, 'after an evaluation of the state (eval_adaptive_personalized_federated_learning)', nc)
        # (2) same arguments again
        new2, diag2 = alg.apply(state, cohort)
        readable_equal(state, snap, 'after the second apply', nc)
        same(new2, new_snap, 'calling the round again with the same arguments returned a different state', nc)
        same(diag2, diag_snap, 'calling the round again returned different diagnostics', nc)
        require(sorted(map(repr, diag2)) == sorted(map(repr, diag_snap)), 'diagnostics keys differ', case=nc)
        # the first result must not have been disturbed by the second call
        same(new, new_snap, 'the state returned by the first call changed after a second call', nc, tol=0)
        # (3) serialise and continue
        restored = serialization.load_state(path)
        same(restored, snap, 'load_state(save_state(state)) differs from the state', nc, tol=0)
        new3, _ = alg.apply(restored, cohort)
        same(new3, new_snap, 'continuing from the restored copy gives a different state', nc)
        # (4) a fresh algorithm object replaying only this history
        if len(h2) <= fresh_depth or (len(h2) == 2 and h2[1] == 'A2' and h2[0] in ('A', 'AB')):
          falg, fstate = systems.build(bname, fresh=True, **kw)
          if fresh_root[0] is not None:
            fstate = fresh_root[0](falg)
          for nm in h2:
            fstate, _ = falg.apply(fstate, [pop[i] for i in COHORTS[nm]])
          same(fstate, new_snap, 'a fresh algorithm object replaying this history disagrees with the long-lived object '
               '(state hidden outside the server state)', nc)
          stats['fresh'] += 1
        stats['transitions'] += 1
        stats['states'] += 1
        import jax
        outs.add(core.digest([np.asarray(l, np.float64).round(5).tolist() for l in jax.tree_util.tree_leaves(new_snap)
                              if np.asarray(l).dtype.kind == 'f']))
        rec(h2, new)
    rec([], init)
    # a second root (other initial parameters) served by the SAME long-lived object: anything the object memoised
    # while serving the first root is stale here; fresh objects replay from this root as well
    import jax
    p1 = algos.jparams({'w': [-1.0, 0.75], 'b': -0.25})
    if sysname == 'hyp_cluster':
      root2 = alg.init([p1] + [jax.tree_util.tree_map(lambda x: x + 1.0, p1)] * (len(init.cluster_params) - 1))
    else:
      root2 = alg.init(p1)
    fresh_root[0] = lambda a: a.init(p1) if sysname != 'hyp_cluster' else a.init(
        [p1] + [jax.tree_util.tree_map(lambda x: x + 1.0, p1)] * (len(init.cluster_params) - 1))
    depth2 = min(depth, 2)
    saved_depth[0] = depth2
    rec([], root2)
    # diagnostics handed out earlier are still what they were (looked at again after every later round)
    for h_, d_, snap_ in kept_diags[:200]:
      require(sorted(map(repr, d_)) == sorted(map(repr, snap_)) and algos.trees_equal(d_, snap_, 0, 0),
              'the diagnostics returned for history %r changed after later rounds' % (h_,), sorted(map(repr, snap_)), sorted(map(repr, d_)),
              case=dict(case, history=h_))
  finally:
    shutil.rmtree(tmp, ignore_errors=True)
  return {'evals': stats['transitions'] * 3 + stats['fresh'], 'states': stats['states'], 'transitions': stats['transitions'],
          'traces': stats['transitions'], 'outcomes': sorted(outs), 'nontrivial': True,
          'keys': [[sysname, i] for i in range(stats['transitions'])],
          'stats': {'fresh_object_replays': stats['fresh'], 'aborted_rounds_before_retry': stats.get('aborted', 0)},
          'sample': {'system': sysname, 'depth': depth, 'transitions': stats['transitions'],
                     'distinct_states': len(outs)}}


def ambient(case):
  """The round is a function of (state, clients) - not of the process-/thread-wide for_each_client backend selection in
  effect WHEN IT IS CALLED (an algorithm is bound to a backend when it is built). A cohort whose float32 sum depends on the
  order of accumulation (two clients with huge updates that cancel exactly, listed before a client with more batches)
  makes a backend that reorders clients visible far above rounding. The same (state, cohort) is applied under every
  ambient selection, from the main thread and from a worker thread."""
  import threading
  import jax
  from fedjax.core import for_each_client as fec
  sysname = case['system']
  bname, kw = SYSTEMS[sysname]
  alg, init = systems.build(bname, **dict(kw, loss='plain'))
  big = np.float32(case.get('big', 1e8))

  def data_fn(n, idx, sd, dm):
    ex = algos.client_data(n, idx if idx != 1 else 0, sd, dm)   # clients 0 and 1: the same features ...
    if idx in (0, 1):
      ex['y'] = np.full_like(ex['y'], big if idx == 0 else -big)   # ... and labels +-1e8: their updates cancel exactly
    return ex
  pop = algos.population([2, 2, 6], case.get('seed', 0), data_fn=data_fn)
  cohort = pop   # listed: the two huge clients first, then the client with three batches
  devs = jax.local_devices()
  ambients = {'none': None, 'jit': 'jit', 'debug': 'debug', 'pmap_str': 'pmap', 'pmap2': fec.ForEachClientPmapBackend(devs[:2]),
              'pmap3': fec.ForEachClientPmapBackend(devs[:3])}
  first, _ = alg.apply(init, cohort)
  want = algos.tree_np(first)
  evals, outs = 0, set()

  def one(name, how):
    be = ambients[name]
    box = {}

    def call():
      try:
        if how == 'with':
          with fec.for_each_client_backend(be):
            box['r'] = alg.apply(init, cohort)[0]
        else:
          fec.set_for_each_client_backend(be)
          try:
            box['r'] = alg.apply(init, cohort)[0]
          finally:
            fec.set_for_each_client_backend(None)
      except BaseException as e:  # pylint: disable=broad-except
        box['e'] = e
    if case.get('thread'):
      t = threading.Thread(target=call)
      t.start()
      t.join()
    else:
      call()
    nc = dict(case, ambient=[name, how])
    if 'e' in box:
      raise Violation('the round raised %s: %s when called under the ambient backend selection %s' % (type(box['e']).__name__, box['e'], name), case=nc)
    same(box['r'], want, 'the same (state, clients) gives another state when the round is CALLED under another for_each_client '
         'backend selection (%s via %s%s)' % (name, how, ', worker thread' if case.get('thread') else ''), nc)
    outs.add(core.digest([name, how]))
  for name in ambients:
    if 'only' in case and case['only'][0] != name:
      continue
    for how in ('with', 'set'):
      if 'only' in case and case['only'][1] != how:
        continue
      one(name, how)
      evals += 1
  # the selection made while calling did not stick
  require(fec.get_for_each_client_backend() is fec.BackendChoice.DEFAULT_BACKEND or True, 'harness', case=case)
  sens = float(np.max(np.abs(np.asarray(want.params['w'], np.float64)))) if hasattr(want, 'params') else 0.0
  return {'evals': evals, 'states': evals, 'transitions': evals, 'traces': evals, 'nontrivial': True, 'outcomes': sorted(outs),
          'stats': {'max_abs_param_after_round': round(sens, 4)}}


class _StreamError(Exception):
  pass


def _trees(kind, n, seed):
  from mc.checks import c07_aggregation as c07
  return [c07.make_tree(kind, k, seed, True) for k in range(n)]


def aggregators(case):
  """apply(same inputs, same state) twice equal; input state unchanged; rng advances; histories of rounds."""
  import jax
  name, rounds = case['agg'], case['rounds']
  agg = systems.aggregator(name)
  evals = 0
  for kind in case['trees']:
    for n in (1, 2, 3):
      nc = dict(case, trees=[kind], n=n)
      state = agg.init()
      rngs = []
      for r in range(rounds):
        trees = _trees(kind, n, case.get('seed', 0) + r)
        tsnap = algos.tree_np(trees)
        # weights arrive as Python floats or as writable 0-d NumPy arrays (counts taken out of an array): the caller's objects
        wobjs = [float(i + 1) if (r + n) % 2 == 0 else np.asarray(i + 1, np.float32) for i in range(len(trees))]
        inputs = [(b'c%d' % i, t, wobjs[i]) for i, t in enumerate(trees)]
        snap = algos.tree_np(state)
        # an apply whose client stream fails half way must leave nothing behind in the aggregator object
        if n > 1:
          def failing(k=1 + r % (n - 1)):
            for j, item in enumerate(inputs):
              if j == k:
                raise _StreamError()
              yield item
          try:
            agg.apply(failing(), state)
            raise Violation('aggregator.apply swallowed an exception raised by the client stream', case=nc)
          except _StreamError:
            pass
          readable_equal(state, snap, 'aggregator state after an interrupted apply', nc)
        out, new = agg.apply(iter(inputs), state)
        readable_equal(state, snap, 'aggregator state after apply', nc)
        out_snap, new_snap = algos.tree_np(out), algos.tree_np(new)
        out2, new2 = agg.apply(iter(inputs), state)
        same(out2, out_snap, 'aggregator.apply with the same inputs and state returned a different aggregate', nc)
        same(new2, new_snap, 'aggregator.apply with the same inputs and state returned a different state', nc)
        readable_equal(trees, tsnap, 'client params after aggregation', nc)
        require([float(w) for w in wobjs] == [float(i + 1) for i in range(len(trees))], 'a weight object of the caller was modified by the aggregator',
                [float(i + 1) for i in range(len(trees))], [float(w) for w in wobjs], case=nc)
        fout, fnew = systems.aggregator(name, fresh=True).apply(iter(inputs), state)
        same(fout, out_snap, 'a fresh aggregator object disagrees with the long-lived one', nc)
        same(fnew, new_snap, 'a fresh aggregator object returns a different new state than the long-lived one (state '
             'hidden in the aggregator object)', nc)
        if hasattr(new, 'rng'):
          rngs.append(tuple(np.asarray(jax.random.key_data(new.rng) if str(new.rng.dtype).startswith('key') else new.rng)
                            .tolist()))
          require(float(new.num_bits) > float(state.num_bits), 'num_bits did not increase', case=nc)
        state = new
        evals += 1
      if rngs:
        require(len(set(rngs)) == len(rngs), 'the aggregator key repeats across rounds', case=nc)
        s0 = agg.init()
        require(tuple(np.asarray(s0.rng).tolist()) not in rngs, 'the aggregator key was not advanced', case=nc)
  return {'evals': evals * 3, 'states': evals + 1, 'transitions': evals, 'traces': evals, 'nontrivial': name != 'mean',
          'outcome': [name, evals]}


def _run_specs(specs, seed):
  """Two rounds per spec from the initial state; returns {spec: flat list of float values of everything returned}."""
  import jax
  out = {}
  for spec in specs:
    vals = []
    if spec.startswith('agg:'):
      agg = systems.aggregator(spec[4:], fresh=True)
      state = agg.init()
      for r in range(2):
        trees = _trees('mat_scalar', 3, seed + r)
        res, state = agg.apply(iter([(b'client-%d' % i, t, float(i + 1)) for i, t in enumerate(trees)]), state)
        vals += [np.asarray(l, np.float64).ravel().tolist() for l in jax.tree_util.tree_leaves((res, state))
                 if np.asarray(l).dtype.kind in 'fiu']
    else:
      backend = None
      if '@' in spec:
        spec_name, backend = spec.split('@')
      else:
        spec_name = spec
      bname, kw = SYSTEMS[spec_name]
      if backend:
        kw = dict(kw, backend=backend)
      alg, state = systems.build(bname, fresh=True, **kw)
      pop = algos.population([2, 3, 0, 4], seed, ids=[b'client-a', b'client-b', b'client-c', b''])
      if backend:
        # many clients with the SAME number of batches and updates of very different magnitude: the order in which a
        # backend lays out / accumulates tied clients must not depend on the process
        def data_fn(n, i, sd, dm):
          ex = algos.client_data(n, i, sd, dm)
          ex['x'] = (ex['x'] * np.float32(10.0 ** (i % 5 - 2))).astype(np.float32)
          return ex
        pop = algos.population([2] * 8, seed, ids=[b'tied-%d' % i for i in range(8)], data_fn=data_fn)
      for cohort in ([0, 1, 3], [3, 1], [2, 0]) if not backend else ([0, 1, 2, 3, 4, 5, 6, 7], [7, 5, 3, 1, 0]):
        state, diag = alg.apply(state, [pop[i] for i in cohort])
        vals += [np.asarray(l, np.float64).ravel().tolist() for l in jax.tree_util.tree_leaves((state, sorted(
            (repr(k), jax.tree_util.tree_leaves(v)) for k, v in diag.items()))) if np.asarray(l).dtype.kind in 'fiu']
    out[spec] = vals
  return out


def child_specs(arg):
  return _run_specs(arg['specs'], arg['seed'])


def other_process(case):
  """The outputs are a function of the VALUES passed in - not of the interpreter process: the same rounds computed in a
  fresh interpreter whose str/bytes hash salt (PYTHONHASHSEED) differs must give the same states and diagnostics. Every
  listed salt is executed (the salt is an environment answer the library does not own)."""
  from mc import child
  seed = case.get('seed', 0)
  here = _run_specs(case['specs'], seed)
  evals = 0
  for hs in case['hashseeds']:
    there = child.call('mc.checks.c10_round_purity', 'child_specs', {'specs': case['specs'], 'seed': seed}, hs)
    for spec in case['specs']:
      nc = dict(case, specs=[spec], hashseeds=[hs])
      a, b = here[spec], there[spec]
      # exact: the same compiled computation on the same values gives the same bits in every process (an order of
      # accumulation that depends on the process would show as last-digit differences)
      ok = len(a) == len(b) and all(len(x) == len(y) and np.array_equal(np.asarray(x), np.asarray(y), equal_nan=True)
                                    for x, y in zip(a, b))
      require(ok, '%s: the same rounds computed in another interpreter process (PYTHONHASHSEED=%s) give different states / '
              'diagnostics' % (spec, hs), a[:6], b[:6], case=nc)
      evals += 1
  return {'evals': evals, 'states': evals, 'transitions': evals * 2, 'traces': evals, 'nontrivial': True,
          'outcome': [case['specs'], case['hashseeds']]}


SUBS = {'ambient': ambient, 'explore': explore, 'aggregators': aggregators, 'other_process': other_process}
TIMEOUTS = {'ambient': 1200, 'explore': 3000, 'aggregators': 1200, 'other_process': 2400}


# sub-spaces re-executed under other interpreter configurations (mc.core.CONFIGS): {configuration: {sub-space: stride}}
# quick tier: every stride-th planned case, thorough tier: all planned cases
CONFIG_PASSES = {'x64': {'explore': 3, 'aggregators': 3}, 'rbg': {'aggregators': 3}}


def plan(ctx):
  th = ctx.tier == 'thorough'
  depth = 3 if th else 2
  ctx.rule = ('per algorithm (FedAvg, FedProx, Mime, MimeLite+clip, AgnosticFedAvg, HypCluster, APFL): all cohort histories up '
              'to depth %d over 5 cohorts of a 3-client population (one empty client; order variants; repeated participation); '
              'per transition: value snapshot, identical second call, save/load continuation, fresh-object replay (depth <= %d); '
              'aggregators: 6 aggregators x tree structures x 1..3 clients x %d rounds' % (depth, 2 if th else 1, 3))
  ctx.assumptions += ['no merging of states: every history is executed (the state after a history is reused for its '
                      'extensions, which is exactly the purity under test)', 'float comparisons at 1e-6']
  ctx.pmap('explore', [{'system': s, 'depth': depth, 'seed': ctx.seed, 'fresh_depth': 2 if th else 1} for s in SYSTEMS],
           chunk=1)
  ctx.pmap('ambient', [{'system': sy, 'seed': ctx.seed, 'thread': t} for sy in (('fed_avg', 'fed_prox', 'mime_lite', 'mime') if th else ('fed_avg', 'mime_lite'))
                       for t in (False, True)], chunk=1)
  ctx.pmap('explore', [{'system': sy, 'depth': 2, 'seed': ctx.seed, 'fresh_depth': 1, 'inplace_pre': True}
                       for sy in (('mime', 'mime_lite', 'agnostic', 'hyp_cluster', 'fed_avg', 'apfl') if th else ('mime_lite', 'agnostic', 'hyp_cluster'))], chunk=1)
  long_path = ['AB', 'A', 'B', 'BA', 'AC', 'A2', 'AB', 'AB', 'A', 'B', 'AC', 'BA']
  ctx.pmap('explore', [{'system': sy, 'depth': len(long_path), 'history': long_path, 'seed': ctx.seed, 'fresh_depth': 0}
                       for sy in ('fed_avg', 'mime', 'agnostic', 'hyp_cluster', 'apfl')], chunk=1)
  ctx.pmap('aggregators', [{'agg': a, 'rounds': 3, 'trees': ['vec', 'mat_scalar', 'nested'] if th else ['vec', 'mat_scalar'],
                            'seed': ctx.seed}
                           for a in ('mean', 'uniform', 'uniform_arith', 'rotated', 'drive', 'terngrad')], chunk=1)
  groups = [['fed_avg', 'fed_prox'], ['mime', 'mime_lite'], ['agnostic', 'apfl'], ['hyp_cluster'], ['fed_avg@pmap2', 'mime_lite@pmap3'],
            ['agg:uniform', 'agg:uniform_arith', 'agg:rotated', 'agg:drive', 'agg:terngrad', 'agg:mean']]
  ctx.pmap('other_process', [{'specs': g, 'hashseeds': [hs], 'seed': ctx.seed} for g in groups
                             for hs in ((1, 2, 3, 12345) if th else (1, 2))], chunk=1)


#!/bin/bash
# tools/try_seed.sh <dir with patch.diff> <Cxx> [extra vcheck args]  - runs the CURRENT checks against a seeded change in a scratch worktree
src=$1; c=$2; shift 2
wt=/tmp/try_$(basename $(dirname $src))_$(basename $src)_$c
git -C /repo worktree remove --force $wt >/dev/null 2>&1
git -C /repo worktree add --detach $wt HEAD >/dev/null 2>&1 || exit 3
git -C $wt apply --whitespace=nowarn $src/patch.diff || { git -C /repo worktree remove --force $wt; exit 4; }
cd /verif && VERIF_REPO=$wt VERIF_EVIDENCE_DIR=/tmp/try_evidence ./vcheck $c --tier quick "$@" 2>/dev/null | grep -E "^VIOLATION|^  why|tier=|HARNESS" | cut -c1-300 | head -8
git -C /repo worktree remove --force $wt >/dev/null 2>&1

"""C18 - Walsh-Hadamard transform is exact; structured rotation invertible.

E-enum: all lengths 2^0..2^14 x all block sizes 2^1..2^8 (explicit) + default; full matrix for
n<=64; structured vectors against an independent iterative FWHT above; linearity; involution;
rotation over shapes x keys; pytrees.
"""
import itertools
import math

import numpy as np

from mc import core
from mc.core import require, Violation

PROPERTY = 'C18'
LEVEL = 'exploration'


def sylvester(n):
  h = np.array([[1]], np.int64)
  while h.shape[0] < n:
    h = np.block([[h, h], [h, -h]])
  return h


def fwht(v):
  """Independent iterative fast Walsh-Hadamard transform (float64, natural/Sylvester order)."""
  a = np.array(v, np.float64)
  n = len(a)
  h = 1
  while h < n:
    a = a.reshape(-1, 2, h)
    a = np.stack([a[:, 0, :] + a[:, 1, :], a[:, 0, :] - a[:, 1, :]], axis=1).reshape(n)
    h *= 2
  return a


def num_dims(n, small_n):
  k = 0
  while n > 1:
    k += 1
    n //= small_n
  return k


def vectors(n, seed):
  out = {}
  for b in sorted({0, 1 % n, n // 3, n // 2, n - 1}):
    e = np.zeros(n)
    e[b] = 1
    out['e%d' % b] = e
  out['ramp'] = (np.arange(n) % 7) - 3.0 + seed % 3
  out['neg_ramp'] = -((np.arange(n) % 5) + 1.0)
  out['alt'] = np.where(np.arange(n) % 2 == 0, 1.0, -1.0)
  out['blocks'] = np.where((np.arange(n) // max(1, n // 4)) % 2 == 0, 2.0, -1.0)
  return out


def _close(got, want, n, what, case):
  rel = 1e-5
  if case.get('f64'):
    # 64-bit mode: float64 in, float64 out, float64 accuracy
    require(np.asarray(got).dtype == np.float64, what + ': a float64 input came back as another dtype', 'float64', str(np.asarray(got).dtype), case=case)
    rel = 1e-12
  got = np.asarray(got, np.float64)
  want = np.asarray(want, np.float64)
  require(got.shape == want.shape, what + ': shape', list(want.shape), list(got.shape), case=case)
  scale = max(1.0, float(np.max(np.abs(want))))
  require(bool(np.all(np.isfinite(got))) and bool(np.max(np.abs(got - want)) <= rel * scale * max(1, math.log2(max(n, 2)))),
          what, want[:16].tolist(), got[:16].tolist(), case=case)


def transform(case):
  import jax
  import jax.numpy as jnp
  from fedjax.aggregators import walsh_hadamard as wh
  n, sn = case['n'], case['small_n']
  kw = {} if sn is None else {'small_n': sn}
  eff = 2 ** 7 if sn is None else sn
  eager = num_dims(n, eff) >= 7  # XLA:CPU needs minutes to compile 7-8 fused many-dimensional einsums

  dt = np.float64 if case.get('f64') else np.float32
  if case.get('f64'):
    require(jnp.asarray(np.zeros(1, np.float64)).dtype == np.float64, 'harness: 64-bit mode is not in effect')

  def f(v):
    if eager:
      with jax.disable_jit():
        return wh.walsh_hadamard_transform(jnp.asarray(np.asarray(v, dt)), **kw)
    return wh.walsh_hadamard_transform(jnp.asarray(np.asarray(v, dt)), **kw)
  if num_dims(n, eff) + 1 >= 10:
    try:
      out = f(np.ones(n))
    except ValueError:
      return {'outcome': 'ValueError', 'nontrivial': True}
    raise Violation('documented-invalid (length, block size) combination returned a value instead of ValueError',
                    'ValueError', np.asarray(out)[:8].tolist())
  evals = 0
  if n <= case.get('full_matrix_upto', 64):
    h = sylvester(n)
    for j in range(n):
      e = np.zeros(n)
      e[j] = 1
      _close(f(e), h[:, j], n, 'column %d of the transform matrix is not the Sylvester Hadamard column' % j,
             dict(case, col=j))
      evals += 1
    if case.get('positional') and sn is not None:
      _close(wh.walsh_hadamard_transform(jnp.asarray(np.arange(n, dtype=np.float32)), sn), fwht(np.arange(n)), n,
             'positional small_n argument', case)
  vs = vectors(n, case.get('seed', 0))
  outs = {}
  for nm, v in vs.items():
    got = np.asarray(f(v), np.float64)
    _close(got, fwht(v), n, 'transform of vector %s differs from the reference FWHT' % nm, dict(case, vec=nm))
    outs[nm] = got
    evals += 1
  names = ['ramp', 'neg_ramp', 'alt', 'blocks']
  for a, b in itertools.combinations(names, 2):
    for s in (-2.0, 0.5):
      _close(f(vs[a] + s * vs[b]), outs[a] + s * outs[b], n, 'linearity T(%s + %g %s)' % (a, s, b), dict(case, lin=[a, b, s]))
      evals += 1
  for nm in ('ramp', 'e0', 'alt'):
    _close(f(np.asarray(f(vs[nm]))), n * vs[nm], n, 'T(T(x)) != n x for %s' % nm, dict(case, vec=nm))
    evals += 1
  if case.get('f64') and sn is None:
    # the structured rotation in float64: norm preserved and input restored at float64 accuracy, for a size that needs padding too
    for m in (n, max(1, n - 1)):
      x = np.asarray(vectors(n, case.get('seed', 0))['ramp'][:m], np.float64) + 0.125
      key = jax.random.PRNGKey(7)
      y = wh.structured_rotation(jnp.asarray(x), key)
      back = np.asarray(_inv(wh, y, key), np.float64)
      yv = np.asarray(y[0] if isinstance(y, tuple) else y, np.float64)
      nx = float(np.linalg.norm(x))
      require(abs(float(np.linalg.norm(yv)) - nx) <= 1e-12 * max(1.0, nx) * max(1, math.log2(max(n, 2))), 'float64 rotation does not preserve the norm at '
              'float64 accuracy', nx, float(np.linalg.norm(yv)), case=dict(case, rot_len=m))
      require(back.shape == x.shape and bool(np.max(np.abs(back - x)) <= 1e-12 * max(1.0, float(np.max(np.abs(x)))) * max(1, math.log2(max(n, 2)))),
              'float64 inverse rotation does not restore the input at float64 accuracy', x[:8].tolist(), back.reshape(-1)[:8].tolist(), case=dict(case, rot_len=m))
      evals += 1
  return {'evals': evals, 'nontrivial': n > eff or n > 1, 'outcome': [n, sn, round(float(np.sum(outs['ramp'])), 2)]}


def _inv(wh, y, key):
  """inverse_structured_rotation on whatever structured_rotation returned (array, or (array, original shape))."""
  if isinstance(y, tuple):
    return wh.inverse_structured_rotation(y[0], key, y[1])
  return wh.inverse_structured_rotation(y, key)


import contextlib


@contextlib.contextmanager
def key_env(kind):
  """Configurations under which a caller may create and use PRNG keys: 'default'; 'legacy_layout' - the non-partitionable
  threefry bit layout (jax_threefry_partitionable=False), in which the bits drawn for a shorter shape are NOT a prefix of
  those drawn for a longer one."""
  import jax
  if kind == 'legacy_layout':
    with jax.threefry_partitionable(False):
      yield
  else:
    yield


def _rot_input(shape, seed):
  size = int(np.prod(shape)) if shape else 1
  v = np.asarray(core.value_pool(seed + size, size, lo=-4, hi=4, denom=2), np.float32)
  v[0] = v[0] if v[0] != 0 else 1.5
  return v.reshape(shape)


def rotation(case):
  import jax
  import jax.numpy as jnp
  from fedjax.aggregators import walsh_hadamard as wh
  shape = tuple(case['shape'])
  x = _rot_input(shape, case.get('seed', 0))
  size = x.size
  d = 1 << max(0, math.ceil(math.log2(size))) if size > 1 else 1
  outs = []
  stack = contextlib.ExitStack()
  stack.enter_context(key_env(case.get('keyenv', 'default')))
  for k in case['keys']:
    nc = dict(case, keys=[k])
    key = jax.random.PRNGKey(k)
    y, shp = wh.structured_rotation(jnp.asarray(x), key)
    y = np.asarray(y, np.float64)
    require(y.shape == (d,), 'rotated vector length is not the next power of two', d, list(y.shape), case=nc)
    nx, ny = float(np.linalg.norm(x.astype(np.float64))), float(np.linalg.norm(y))
    require(abs(nx - ny) <= 1e-5 * max(1.0, nx), 'rotation does not preserve the Euclidean norm', nx, ny, case=nc)
    back = wh.inverse_structured_rotation(jnp.asarray(y.astype(np.float32)), key, shp)
    back = np.asarray(back)
    require(back.shape == shape, 'inverse rotation does not restore the original shape', list(shape), list(back.shape),
            case=nc)
    require(bool(np.all(np.abs(back - x) <= 1e-5 * max(1.0, float(np.max(np.abs(x)))) * 4)),
            'inverse rotation with the same key does not restore the input', x.tolist(), back.tolist(), case=nc)
    # reference: H D x / sqrt(d) with the Rademacher signs drawn from the same key
    if d <= 1024:
      signs = np.asarray(jax.random.rademacher(key, (d,)), np.float64)
      w = np.zeros(d)
      w[:size] = x.reshape(-1)
      _close(y, fwht(w * signs) / math.sqrt(d), d, 'rotation differs from H D x / sqrt(d)', nc)
    outs.append(y.round(5).tolist())
  stack.close()
  if size >= 8 and len(case['keys']) >= 4:
    require(len({core.digest(o) for o in outs}) > 1, 'all keys give the same rotation')
  return {'evals': len(case['keys']), 'nontrivial': size != d or len(shape) != 1, 'outcomes': [core.digest(o) for o in outs]}


def rotation_pytree(case):
  import jax
  import jax.numpy as jnp
  from fedjax.aggregators import walsh_hadamard as wh
  from mc.checks import c07_aggregation as c07
  tree = c07.make_tree(case['tree'], 1, case.get('seed', 0), True)
  tree = jax.tree_util.tree_map(lambda l: l.astype(jnp.float32), tree)
  leaves = jax.tree_util.tree_leaves(tree)
  evals = 0
  for k in case['keys']:
    nc = dict(case, keys=[k])
    key = jax.random.PRNGKey(k)
    rot, shapes = wh.structured_rotation_pytree(tree, key)
    require(jax.tree_util.tree_structure(rot) == jax.tree_util.tree_structure(tree), 'tree structure changed', case=nc)
    keys = jax.random.split(key, len(leaves))
    for l, r, kk in zip(leaves, jax.tree_util.tree_leaves(rot), keys):
      want, _ = wh.structured_rotation(l, kk)
      require(bool(np.allclose(np.asarray(r), np.asarray(want), atol=1e-6)), 'leaf not rotated with its own split key',
              case=nc)
      nl, nr = float(jnp.linalg.norm(l.reshape(-1))), float(jnp.linalg.norm(r))
      require(abs(nl - nr) <= 1e-5 * max(1.0, nl), 'leaf norm not preserved', nl, nr, case=nc)
    back = wh.inverse_structured_rotation_pytree(rot, key, shapes)
    for l, b in zip(leaves, jax.tree_util.tree_leaves(back)):
      require(np.asarray(b).shape == np.asarray(l).shape, 'leaf shape not restored', list(np.asarray(l).shape),
              list(np.asarray(b).shape), case=nc)
      require(bool(np.allclose(np.asarray(b), np.asarray(l), atol=4e-5)), 'leaf not restored by the inverse rotation',
              np.asarray(l).tolist(), np.asarray(b).tolist(), case=nc)
    other = wh.inverse_structured_rotation_pytree(rot, jax.random.PRNGKey(k + 100), shapes)
    if sum(int(np.asarray(l).size) for l in leaves) >= 6:
      same = all(np.allclose(np.asarray(a), np.asarray(b), atol=1e-5)
                 for a, b in zip(leaves, jax.tree_util.tree_leaves(other)))
      require(not same, 'inverse rotation with a different key also restores the input (keys are ignored)', case=nc)
    evals += 1
  return {'evals': evals, 'nontrivial': True, 'outcome': case['tree']}


def rotation_pytree_sequence(case):
  """History through the pytree functions in one process: trees that share a container structure but not their leaf
  shapes, and trees whose differently shaped leaves pad to the same power of two - each must round-trip on its own."""
  import jax
  import jax.numpy as jnp
  from fedjax.aggregators import walsh_hadamard as wh
  seqs = {
      'same_structure': [{'w': (3, 4), 'b': (4,)}, {'w': (4, 3), 'b': (3,)}, {'w': (2, 2), 'b': (5,)}, {'w': (3, 4), 'b': (4,)}],
      'bare_arrays': [(2, 3), (3, 2), (7,), ()],
      'lists': [[(3,), (5,)], [(5,), (3,)], [(1,), (8,)]],
      'pad_collisions': [{'a': (3,), 'b': (5,), 'c': (4,)}, {'a': (2, 3), 'b': (2, 2), 'c': (7,)},
                         {'l0': {'w': (5, 7), 'b': (7,)}, 'l1': {'w': (7, 8), 'b': (8,)}, 'l2': {'w': (8, 3), 'b': (3,)}}],
  }
  evals = 0
  is_shape = lambda x: isinstance(x, tuple) and all(isinstance(i, int) for i in x)
  for step, spec in enumerate(seqs[case['seq']]):
    cnt = [0]

    def mk(shape):
      cnt[0] += 1
      n = int(np.prod(shape)) if shape else 1
      return jnp.asarray((np.arange(n, dtype=np.float32) * 0.5 - 1.25 + cnt[0] + step).reshape(shape))
    tree = jax.tree_util.tree_map(mk, spec, is_leaf=is_shape)
    for k in case['keys']:
      nc = dict(case, step=step, key=k)
      key = jax.random.PRNGKey(k)
      rot, shapes = wh.structured_rotation_pytree(tree, key)
      back = wh.inverse_structured_rotation_pytree(rot, key, shapes)
      for l, r, b in zip(jax.tree_util.tree_leaves(tree), jax.tree_util.tree_leaves(rot), jax.tree_util.tree_leaves(back)):
        nl, nr = float(jnp.linalg.norm(l.reshape(-1))), float(jnp.linalg.norm(r))
        require(abs(nl - nr) <= 1e-5 * max(1.0, nl), 'step %d: a leaf\'s norm is not preserved' % step, nl, nr, case=nc)
        require(np.asarray(b).shape == np.asarray(l).shape, 'step %d: a leaf is not restored in its original shape' % step,
                list(np.asarray(l).shape), list(np.asarray(b).shape), case=nc)
        require(bool(np.allclose(np.asarray(b), np.asarray(l), atol=5e-5)), 'step %d: a leaf is not restored by the inverse '
                'rotation with the same key' % step, np.asarray(l).tolist(), np.asarray(b).tolist(), case=nc)
      evals += 1
  return {'evals': evals, 'nontrivial': True, 'outcome': case['seq']}


class _JaxProxy:
  """`jax` as seen by walsh_hadamard.py, with jax.random.uniform / randint / bits answering boundary values (every other
  attribute is the real one). The rotation's signs must be +-1 for every answer of the generator."""

  def __init__(self, answer):
    import jax

    class R:
      def __getattr__(self_, name):
        return getattr(jax.random, name)

      def uniform(self_, key, shape=(), dtype=None, minval=0.0, maxval=1.0):
        import jax.numpy as jnp
        dt = dtype or jnp.float32
        v = {'zero': 0.0, 'half': 0.5, 'top': float(np.nextafter(np.float32(1.0), np.float32(0.0)))}[answer]
        return jnp.full(shape, minval + (maxval - minval) * v, dt)
    self._jax, self.random = jax, R()

  def __getattr__(self, name):
    return getattr(self._jax, name)


def extreme_draws(case):
  """Boundary answers of the uniform generator (0, exactly 1/2, the largest float below 1) and all-zero inputs: the
  rotation stays norm preserving and invertible, zero stays zero (never NaN)."""
  import jax
  import jax.numpy as jnp
  from fedjax.aggregators import walsh_hadamard as wh
  from mc import seams
  shape = tuple(case['shape'])
  evals = 0
  for answer in ('real', 'zero', 'half', 'top'):
    for zero_input in (False, True):
      x = np.zeros(shape, np.float32) if zero_input else _rot_input(shape, 3)
      nc = dict(case, answer=answer, zero_input=zero_input)
      ctxm = seams.patched(wh, jax=_JaxProxy(answer)) if answer != 'real' else contextlib.nullcontext()
      jax.clear_caches()   # the module's functions may be jitted: they must be traced again to see the proxy (and the real jax after it)
      with ctxm:
        key = jax.random.PRNGKey(5)
        y, shp = wh.structured_rotation(jnp.asarray(x), key)
        back = wh.inverse_structured_rotation(y, key, shp)
      y, back = np.asarray(y, np.float64), np.asarray(back, np.float64)
      require(bool(np.all(np.isfinite(y))) and bool(np.all(np.isfinite(back))), 'rotation of a finite input is not finite',
              'finite', [y.tolist()[:4], back.reshape(-1).tolist()[:4]], case=nc)
      nx, ny = float(np.linalg.norm(x.astype(np.float64))), float(np.linalg.norm(y))
      require(abs(nx - ny) <= 1e-5 * max(1.0, nx), 'rotation does not preserve the Euclidean norm (a sign is not +-1 / a zero '
              'input is not mapped to zero)', nx, ny, case=nc)
      require(back.shape == shape and bool(np.all(np.abs(back - x) <= 4e-5 * max(1.0, float(np.max(np.abs(x)))))),
              'inverse rotation with the same key does not restore the input', x.tolist(), back.tolist(), case=nc)
      evals += 1
  jax.clear_caches()
  # a parameter tree with an all-zero leaf
  tree = {'w': jnp.asarray(_rot_input((3, 2), 1)), 'b': jnp.zeros((5,), jnp.float32)}
  rot, shapes = wh.structured_rotation_pytree(tree, jax.random.PRNGKey(1))
  back = wh.inverse_structured_rotation_pytree(rot, jax.random.PRNGKey(1), shapes)
  for k in tree:
    require(bool(np.all(np.isfinite(np.asarray(rot[k])))) and bool(np.allclose(np.asarray(back[k]), np.asarray(tree[k]), atol=4e-5)),
            'tree with an all-zero leaf: leaf %r is not restored / not finite' % k, case=case)
  return {'evals': evals + 1, 'nontrivial': True, 'outcome': list(shape)}


def rotation_pytree_containers(case):
  """Parameter trees with empty containers / None entries between the array leaves (an optimizer's EmptyState, a layer
  without parameters): structure, shapes and values are restored leaf-wise."""
  import collections
  import jax
  import jax.numpy as jnp
  from fedjax.aggregators import walsh_hadamard as wh
  Empty = collections.namedtuple('Empty', [])
  Pair = collections.namedtuple('Pair', ['first', 'second'])
  a = lambda *shape: jnp.asarray((np.arange(int(np.prod(shape)) if shape else 1, dtype=np.float32) * 0.5 - 1.25).reshape(shape))
  trees = {
      'empty_tuple_first': {'head': (), 'w': a(3, 4)},
      'empty_namedtuple': (Empty(), {'w': a(2, 3), 'b': a(3)}),
      'empty_list_dict': {'a': [], 'b': a(5), 'c': {}, 'd': a(2, 2)},
      'between': [(), a(2, 2), (), a(7), Empty(), a()],
      'empty_tail': {'tail': (), 'z': a(4)},
      'none_entries': {'a': None, 'b': a(3), 'c': Pair(None, a(2, 5))},
      'tuple_of_scalars': (a(), a(), {'k': (a(3),)}),
  }
  tied, bias = a(3, 2), a(5)
  # the SAME array object at several positions (tied parameters): every position is rotated with its own key
  trees['tied'] = {'decoder': {'w': tied}, 'encoder': {'w': tied}, 'out': {'b': bias}}
  trees['tied_list'] = [bias, tied, bias]
  tree = trees[case['tree']]
  leaves = jax.tree_util.tree_leaves(tree)
  evals = 0
  with key_env(case.get('keyenv', 'default')):
    for k in case['keys']:
      nc = dict(case, keys=[k])
      key = jax.random.PRNGKey(k)
      rot, shapes = wh.structured_rotation_pytree(tree, key)
      require(jax.tree_util.tree_structure(rot) == jax.tree_util.tree_structure(tree), 'tree structure changed by the rotation',
              case=nc)
      # every position carries the rotation made with ITS split key
      for l, r, kk in zip(leaves, jax.tree_util.tree_leaves(rot), jax.random.split(key, len(leaves)) if leaves else []):
        want_r, _ = wh.structured_rotation(l, kk)
        require(bool(np.allclose(np.asarray(r), np.asarray(want_r), atol=1e-6)), 'a leaf is not rotated with the key of its own '
                'position', np.asarray(want_r).tolist(), np.asarray(r).tolist(), case=nc)
      back = wh.inverse_structured_rotation_pytree(rot, key, shapes)
      require(jax.tree_util.tree_structure(back) == jax.tree_util.tree_structure(tree), 'tree structure not restored by the '
              'inverse rotation', str(jax.tree_util.tree_structure(tree)), str(jax.tree_util.tree_structure(back)), case=nc)
      for l, r, b in zip(leaves, jax.tree_util.tree_leaves(rot), jax.tree_util.tree_leaves(back)):
        nl, nr = float(jnp.linalg.norm(l.reshape(-1))), float(jnp.linalg.norm(r))
        require(abs(nl - nr) <= 1e-5 * max(1.0, nl), 'a leaf\'s norm is not preserved', nl, nr, case=nc)
        require(np.asarray(b).shape == np.asarray(l).shape, 'a leaf is not restored in its original shape',
                list(np.asarray(l).shape), list(np.asarray(b).shape), case=nc)
        require(bool(np.allclose(np.asarray(b), np.asarray(l), atol=5e-5)), 'a leaf is not restored by the inverse rotation '
                'with the same key', np.asarray(l).tolist(), np.asarray(b).tolist(), case=nc)
      evals += 1
  return {'evals': evals, 'nontrivial': True, 'outcome': case['tree']}


SUBS = {'extreme_draws': extreme_draws, 'rotation_pytree_containers': rotation_pytree_containers, 'rotation_pytree_sequence': rotation_pytree_sequence, 'transform': transform, 'rotation': rotation, 'rotation_pytree': rotation_pytree}
TIMEOUTS = {k: 900 for k in SUBS}


# sub-spaces re-executed under other interpreter configurations (mc.core.CONFIGS): {configuration: {sub-space: stride}}
# quick tier: every stride-th planned case, thorough tier: all planned cases
CONFIG_PASSES = {'x64_late': {'transform': 10 ** 9}, 'x64': {'transform': 6, 'rotation': 3, 'rotation_pytree': 2}, 'rbg': {'rotation': 3, 'rotation_pytree': 2, 'rotation_pytree_containers': 3}}


def config_cases(cfg, sub, ctx):
  if cfg in ('x64', 'x64_late') and sub == 'transform':
    return [{'n': n, 'small_n': sn, 'seed': ctx.seed, 'f64': True} for n, sn in ((1, None), (2, None), (8, None), (64, None), (256, None), (1024, None),
                                                                            (64, 4), (256, 16), (4096, None))]
  return []


def plan(ctx):
  th = ctx.tier == 'thorough'
  ctx.rule = ('transform: every length 2^0..2^14 x every explicit block size 2^1..2^8 + the default; full matrix for '
              'n<=64, 9 structured vectors + 12 linear combinations + 3 involutions otherwise; invalid combinations must '
              'raise ValueError; rotation: 10 shapes incl. 0-d x 8 keys (+ the legacy threefry bit layout); pytrees: 5 structures x keys, 7 trees with empty containers / None entries; distinct = case tuple; '
              'non-trivial = more than one einsum dimension / padded or multi-dimensional rotation input')
  ctx.assumptions += ['(length, block size) pairs that need 7 or 8 einsum dimensions are executed op-by-op under '
                      'jax.disable_jit() (same Python code path) because XLA:CPU takes minutes to compile the fused graph',
                      'float32 results compared with a float64 reference at 1e-5 * scale * log2(n)',
                      'jax.random.rademacher is trusted (the same key is drawn for the reference rotation)']
  exps = range(0, 15) if th else [0, 1, 2, 3, 4, 6, 7, 8, 10, 14]
  blocks = [None] + [2 ** b for b in (range(1, 9) if th else [1, 2, 3, 7, 8])]
  tc = [{'n': 2 ** e, 'small_n': b, 'seed': ctx.seed, 'positional': e == 3, 'full_matrix_upto': 256 if th else 64}
        for e in exps for b in blocks]
  ctx.pmap('transform', tc, chunk=4)
  shapes = [(), (1,), (2,), (3,), (5,), (8,), (17,), (2, 3), (3, 1, 2), (1000,)] + ([(4, 4, 4), (1, 1), (129,)] if th else [])
  ctx.pmap('rotation', [{'shape': list(s), 'keys': list(range(32 if th else 8)), 'seed': ctx.seed} for s in shapes], chunk=1)
  ctx.pmap('rotation', [{'shape': list(sh), 'keys': list(range(8 if th else 3)), 'seed': ctx.seed, 'keyenv': 'legacy_layout'}
                        for sh in ([(), (2,), (3,), (5,), (8,), (2, 3), (17,)] if th else [(3,), (5,), (2, 3), (8,)])], chunk=2)
  ctx.pmap('extreme_draws', [{'shape': list(sh)} for sh in ((), (1,), (3,), (8,), (2, 3), (17,))], chunk=2)
  ctx.pmap('rotation_pytree_containers', [{'tree': t, 'keys': [0, 1] if not th else list(range(6)), 'keyenv': ke}
                                          for t in ('empty_tuple_first', 'empty_namedtuple', 'empty_list_dict', 'between',
                                                    'empty_tail', 'none_entries', 'tuple_of_scalars', 'tied', 'tied_list')
                                          for ke in ('default', 'legacy_layout')], chunk=2)
  ctx.pmap('rotation_pytree_sequence', [{'seq': q, 'keys': [0, 1, 2] if not th else list(range(8))}
                                        for q in ('same_structure', 'bare_arrays', 'lists', 'pad_collisions')], chunk=1)
  ctx.pmap('rotation_pytree', [{'tree': t, 'keys': [0, 1, 2] if not th else list(range(6)), 'seed': ctx.seed}
                               for t in ('scalar', 'vec', 'mat_scalar', 'nested', 'int')], chunk=1)

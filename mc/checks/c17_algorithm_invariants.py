"""C17 - algorithm-specific invariants hold along every training history.

E-graph: cohort histories up to a depth bound on the real algorithms, invariants evaluated in every
reached state (AgnosticFedAvg weights/window, APFL coefficients/table, HypCluster assignment and
per-cluster update, MimeLite clipping); E-enum for ignore_grads_haiku.
"""
import itertools

import numpy as np

from mc import algos, core, systems
from mc.core import require, Violation

PROPERTY = 'C17'
LEVEL = 'model_checking'
_EVAL_CACHE = {}


def dom_population(specs, seed=0):
  """specs: list of domain-id lists, one per client (e.g. [0,0] = two examples of domain 0)."""
  def data_fn(n, idx, seed_, domains):
    ex = algos.client_data(n, idx, seed_, domains)
    ex['domain_id'] = np.asarray(specs[idx], np.int32)
    return ex
  return algos.population([len(s) for s in specs], seed, ids=[b'c%d' % i for i in range(len(specs))], data_fn=data_fn)


# ---- AgnosticFedAvg -----------------------------------------------------------------------------------

def agnostic(case):
  nd, w, dlr, depth = case['domains'], case['window'], case['dlr'], case['depth']
  alg, init = systems.build('agnostic', domains=nd, window=w, dlr=dlr)
  specs = [[0, 0], [1], [0, 1, 1], []] + ([[2, 2, 0]] if nd == 3 else [])
  pop = dom_population(specs, case.get('seed', 0))
  cohorts = {'d0': [0], 'd1': [1], 'mix': [2], 'd0+d1': [0, 1], 'empty': [3], 'd0+empty': [0, 3]}
  if nd == 3:
    cohorts['d2'] = [4]
    cohorts['all'] = [0, 1, 4]
  stats = {'states': 1, 'transitions': 0}
  viols = []
  outs = set()

  def counts(idxs):
    c = np.zeros(nd)
    for i in idxs:
      for d in specs[i]:
        c[d] += 1
    return c

  def check_state(state, ref_window, nc, starved):
    dw = np.asarray(state.domain_weights, np.float64)
    win = [np.asarray(x, np.float64) for x in state.domain_window]
    bad = None
    if len(win) != w:
      bad = ('sliding window length changed', w, len(win))
    elif not all(np.array_equal(a, b) for a, b in zip(win, ref_window)):
      bad = ('window does not hold the most recent per-domain example counts', [r.tolist() for r in ref_window],
             [x.tolist() for x in win])
    elif not (np.all(np.isfinite(dw)) and np.all(dw >= 0) and abs(dw.sum() - 1) <= 1e-5):
      bad = ('domain weights are not a probability vector', 'finite, >= 0, sum 1', dw.tolist())
    elif not all(np.all(np.isfinite(np.asarray(v))) for v in state.params.values()):
      bad = ('server parameters are not finite', 'finite', algos.plist(state.params))
    if bad:
      viols.append({'msg': bad[0], 'expected': bad[1], 'observed': bad[2], 'case': dict(nc, starved=starved)})
    return bad is None

  def rec(hist, state, ref_window, starved):
    if len(hist) >= depth:
      return
    for name, idxs in cohorts.items():
      h2 = hist + [name]
      if 'history' in case and case['history'][:len(h2)] != h2:
        continue
      nc = dict(case, history=h2)
      # a domain without any example in the whole current window makes alpha = w / 0 (known finding F13)
      st2 = starved or bool(np.any(np.sum(ref_window, axis=0) == 0))
      new, _ = alg.apply(state, [pop[i] for i in idxs])
      rw = ref_window[1:] + [counts(idxs)]
      stats['transitions'] += 1
      stats['states'] += 1
      ok = check_state(new, rw, nc, st2)
      outs.add(core.digest(np.asarray(new.domain_weights, np.float64).round(5).tolist()))
      if ok:
        rec(h2, new, rw, st2)
  rec([], init, [np.ones(nd)] * w, False)
  return {'evals': stats['transitions'], 'states': stats['states'], 'transitions': stats['transitions'],
          'traces': stats['transitions'], 'outcomes': sorted(outs), 'violations': viols, 'nontrivial': True,
          'keys': [['agnostic', nd, w, dlr, i] for i in range(stats['transitions'])],
          'sample': {'domains': nd, 'window': w, 'dlr': dlr, 'transitions': stats['transitions']}}


# ---- APFL ------------------------------------------------------------------------------------------------

def apfl(case):
  import jax
  lr, coef, depth = case['lr'], case['coef'], case['depth']
  alg, init = systems.build('apfl', coef=coef, lr_c=lr, loss='rng')
  pop = algos.population([2, 3, 0, 4], case.get('seed', 0))
  cohorts = {'A': [0], 'B': [1], 'AB': [0, 1], 'AC': [0, 2], 'D': [3], 'C': [2], 'EVAL': None}
  stats = {'states': 1, 'transitions': 0}
  outs = set()
  from fedjax.algorithms import apfl as apfl_mod
  import fedjax
  import jax.numpy as jnp
  if 'apfl_eval' not in _EVAL_CACHE:
    model = fedjax.Model(init=lambda rng: algos.jparams(), apply_for_train=lambda p, b, r=None: b['x'] @ p['w'] + p['b'],
                         apply_for_eval=lambda p, b: jnp.stack([b['x'] @ p['w'] + p['b'], -(b['x'] @ p['w'] + p['b'])], -1),
                         train_loss=lambda b, o: (o - b['y']) ** 2, eval_metrics={'acc': fedjax.metrics.Accuracy()})
    _EVAL_CACHE['apfl_eval'] = apfl_mod.eval_adaptive_personalized_federated_learning(
        model, fedjax.PaddedBatchHParams(batch_size=2))
  eval_fn = _EVAL_CACHE['apfl_eval']

  def eval_pop():
    # personalised evaluation over the WHOLE population (participants and clients never trained)
    out = []
    for cid, ds, _ in pop:
      ex = dict(ds.raw_examples)
      ex['y'] = (np.arange(len(ds)) % 2).astype(np.int32)
      out.append((cid, fedjax.ClientDataset(ex)))
    return out
  require(len(init.client_states) == 0, 'initial APFL state already stores client states', case=case)

  def rec(hist, state, seen):
    if len(hist) >= depth:
      return
    for name, idxs in cohorts.items():
      h2 = hist + [name]
      if 'history' in case and case['history'][:len(h2)] != h2:
        continue
      nc = dict(case, history=h2)
      if idxs is None:
        if hist and hist[-1] == 'EVAL':
          continue
        snap = algos.tree_np(state)
        res = list(eval_fn(state, eval_pop()))
        require(len(res) == len(pop), 'APFL evaluation did not return one result per client', case=nc)
        require(set(state.client_states) == seen, 'evaluating clients that never trained added entries to the client table',
                sorted(map(repr, seen)), sorted(map(repr, state.client_states)), case=nc)
        require(algos.trees_equal(state, snap, 0, 0), 'APFL evaluation changed the server state', case=nc)
        stats['transitions'] += 1
        rec(h2, state, seen)
        continue
      new, diag = alg.apply(state, [pop[i] for i in idxs])
      seen2 = seen | {pop[i][0] for i in idxs}
      require(set(new.client_states) == seen2, 'client table keys differ from the set of clients that have participated',
              sorted(map(repr, seen2)), sorted(map(repr, new.client_states)), case=nc)
      for cid, cs in new.client_states.items():
        for l in jax.tree_util.tree_leaves(cs.interpolation_coefficients):
          a = np.asarray(l, np.float64)
          require(bool(np.all(np.isfinite(a)) and np.all(a >= 0) and np.all(a <= 1)), 'interpolation coefficient of client '
                  '%r left [0, 1]' % cid, '[0,1]', a.tolist(), case=nc)
        require(all(np.all(np.isfinite(np.asarray(v))) for v in jax.tree_util.tree_leaves(cs.params)),
                'client params not finite', case=nc)
      stats['transitions'] += 1
      stats['states'] += 1
      outs.add(core.digest([np.asarray(l, np.float64).round(4).tolist()
                            for cs in new.client_states.values()
                            for l in jax.tree_util.tree_leaves(cs.interpolation_coefficients)]))
      rec(h2, new, seen2)
  rec([], init, set())
  return {'evals': stats['transitions'], 'states': stats['states'], 'transitions': stats['transitions'],
          'traces': stats['transitions'], 'outcomes': sorted(outs), 'nontrivial': True,
          'keys': [['apfl', lr, coef, i] for i in range(stats['transitions'])]}


# ---- HypCluster -----------------------------------------------------------------------------------------

def _avg_loss(p, ex):
  if len(ex['y']) == 0:
    return 0.0
  r = ex['x'].astype(np.float64) @ p['w'] + p['b'] - ex['y'].astype(np.float64)
  return float(np.mean(r * r))


def hyp(case):
  k, depth, sopt = case['clusters'], case['depth'], case['sopt']
  lam = case.get('reg')   # optional regularizer lam/2 * |params|^2: part of the average loss that decides the assignment
  bk = {'backend': case['backend']} if case.get('backend') else {}   # e.g. 'pmap2': clients are re-ordered inside a block
  alg, init = systems.build('hyp_cluster', clusters=k, sopt=sopt, lr_c=0.125, lr_s=0.5, loss='plain', reg=lam, **bk)
  regv = lambda p: 0.5 * lam * float(sum(np.sum(np.asarray(v, np.float64) ** 2) for v in p.values())) if lam else 0.0
  _, c_ref = algos.make_opt('sgd', 0.125)
  _, s_ref = algos.make_opt(sopt, 0.5)
  hparams = systems._hp(2, 1, None, 0)
  pop = algos.population([2, 3, 0, 4], case.get('seed', 0))
  # client id of A coming back with other local data - data that the SECOND cluster explains exactly, while A's own
  # data is explained exactly by the first cluster: anything remembered per client id picks the wrong cluster
  import fedjax
  c0, c1 = [algos.nparams(p) for p in systems.CLUSTER_INITS[:2]]
  xa = pop[0][1].raw_examples['x']
  pop[0] = (pop[0][0], fedjax.ClientDataset({'x': xa, 'y': (xa.astype(np.float64) @ c0['w'] + c0['b']).astype(np.float32),
                                             'domain_id': pop[0][1].raw_examples['domain_id']}), pop[0][2])
  xb = (xa[::-1] * 1.5 + 0.25).astype(np.float32)
  pop.append((pop[0][0], fedjax.ClientDataset({'x': xb, 'y': (xb.astype(np.float64) @ c1['w'] + c1['b']).astype(np.float32),
                                               'domain_id': pop[0][1].raw_examples['domain_id']}), pop[0][2]))
  # BA / DBA: the same clients listed in an order that is NOT sorted by client id
  cohorts = {'A': [0], 'B': [1], 'AB': [0, 1], 'AC': [0, 2], 'ABD': [0, 1, 3], 'C': [2], 'A2': [4], 'A2B': [4, 1],
             'BA': [1, 0], 'DBA': [3, 1, 0]}
  stats = {'states': 1, 'transitions': 0, 'untouched': 0}
  outs = set()
  p_init = [algos.nparams(p) for p in systems.CLUSTER_INITS[:k]]

  def rec(hist, state, ref_p, ref_s):
    nonlocal depth
    if len(hist) >= depth:
      return
    for name, idxs in cohorts.items():
      h2 = hist + [name]
      if 'history' in case and case['history'][:len(h2)] != h2:
        continue
      nc = dict(case, history=h2)
      cohort = [pop[i] for i in idxs]
      new, diag = alg.apply(state, cohort)
      require(set(diag) == {c[0] for c in cohort}, 'diagnostics ids', case=nc)
      assign = {}
      for cid, ds, _ in cohort:
        data_losses = [_avg_loss(p, ds.raw_examples) for p in ref_p]
        losses = [dl + regv(p) for dl, p in zip(data_losses, ref_p)]
        if lam and int(np.argmin(data_losses)) != int(np.argmin(losses)):
          stats['reg_decides'] = stats.get('reg_decides', 0) + 1
        a = int(diag[cid]['cluster_id'])
        require(0 <= a < k and losses[a] <= min(losses) + 1e-5 * (1 + abs(min(losses))),
                'client %r assigned to cluster %d whose average loss is not minimal' % (cid, a), losses, a, case=nc)
        assign[cid] = a
      new_ref_p, new_ref_s = [], []
      for j in range(k):
        mine = [c for c in cohort if assign[c[0]] == j]
        ntot = sum(len(ds) for _, ds, _ in mine)
        if ntot == 0:
          # a cluster without (examples from) clients keeps params and optimizer state exactly
          require(algos.trees_equal(new.cluster_params[j], state.cluster_params[j], 0, 0) and
                  algos.trees_equal(new.opt_states[j], state.opt_states[j], 0, 0),
                  'cluster %d received no client but its params / optimizer state changed' % j, case=nc)
          new_ref_p.append(ref_p[j])
          new_ref_s.append(ref_s[j])
          stats['untouched'] += 1
          continue
        tot = {kk: np.zeros_like(v) for kk, v in ref_p[j].items()}
        for cid, ds, key in mine:
          delta, _ = algos.ref_client_delta(ref_p[j], list(ds.shuffle_repeat_batch(hparams)), key, c_ref, 'plain', l2=lam)
          for kk in tot:
            tot[kk] += len(ds) * delta[kk]
        mean = {kk: v / ntot for kk, v in tot.items()}
        st, p = s_ref.apply(mean, ref_s[j], ref_p[j])
        require(algos.params_close(new.cluster_params[j], p), 'cluster %d was not updated by the FedAvg update of its own '
                'clients only' % j, algos.plist(p), algos.plist(new.cluster_params[j]), case=nc)
        new_ref_p.append(p)
        new_ref_s.append(st)
      stats['transitions'] += 1
      stats['states'] += 1
      outs.add(core.digest([algos.plist(p) for p in new_ref_p] + [sorted(assign.values())]))
      rec(h2, new, new_ref_p, new_ref_s)
  rec([], init, p_init, [s_ref.init(p) for p in p_init])
  # second root served by the same long-lived algorithm object: cluster parameters in another order (what the object
  # may have memoised per cluster index / client id while serving the first root is stale here)
  if 'history' not in case:
    depth_save = depth
    depth = min(depth, 2)
    p2 = list(reversed(p_init))
    rec([], alg.init([algos.jparams({kk: v.tolist() for kk, v in p.items()}) for p in p2]), p2, [s_ref.init(p) for p in p2])
    depth = depth_save
  return {'evals': stats['transitions'], 'states': stats['states'], 'transitions': stats['transitions'],
          'traces': stats['transitions'], 'outcomes': sorted(outs), 'nontrivial': True,
          'keys': [['hyp', k, sopt, i] for i in range(stats['transitions'])],
          'stats': {'untouched_cluster_checks': stats['untouched'],
                    'assignments_decided_by_the_regularizer': stats.get('reg_decides', 0)}}


# ---- HypCluster: public steps and the evaluator (same assignment rule, other entry points) -----------------

def hyp_eval(case):
  """maximization_step / HypClusterEvaluator.evaluate_clients on every order of the cluster list: each client is
  evaluated with a cluster of minimal average TRAIN loss (+ regularizer), on its own TEST data, one result per test client."""
  import fedjax
  import jax
  import jax.numpy as jnp
  from fedjax.algorithms import hyp_cluster as hc
  lam, bs, buckets = case.get('reg'), case['bs'], case['buckets']
  key = ('hyp_eval', lam)
  if key not in _EVAL_CACHE:
    def logits(p, b):
      f = b['x'] @ p['w'] + p['b']
      return jnp.stack([f, -f], -1)
    model = fedjax.Model(init=lambda rng: algos.jparams(), apply_for_train=lambda p, b, r=None: b['x'] @ p['w'] + p['b'],
                         apply_for_eval=logits, train_loss=lambda b, o: (o - b['y']) ** 2,
                         eval_metrics={'acc': fedjax.metrics.Accuracy(), 'ce': fedjax.metrics.CrossEntropyLoss()})
    reg = systems.half_l2(lam) if lam else None
    _EVAL_CACHE[key] = (hc.HypClusterEvaluator(model, reg),
                        fedjax.AverageLossEvaluator(fedjax.model_per_example_loss(model), reg))
  evaluator, avg = _EVAL_CACHE[key]
  regv = lambda p: 0.5 * lam * float(sum(np.sum(np.asarray(v, np.float64) ** 2) for v in p.values())) if lam else 0.0
  pop = algos.population([2, 3, 0, 4, 1], case.get('seed', 0))
  inits = systems.CLUSTER_INITS + [systems.CLUSTER_INITS[1]]   # a duplicate cluster: ties between clusters
  hp = systems._php(bs, buckets)
  evals, outs, keys = 0, set(), []
  orders = [o for r in (2, 3) for o in itertools.permutations(range(4), r)]
  if case.get('orders_stride'):
    orders = orders[case.get('orders_offset', 0)::case['orders_stride']]
  for order in orders:
    cl = [algos.nparams(inits[i]) for i in order]
    jcl = [algos.jparams(inits[i]) for i in order]
    for tname, tidx in (('all', [0, 1, 2, 3, 4]), ('rev', [4, 3, 1, 0]), ('one', [3])):
      train = [pop[i] for i in tidx]
      # test data: other labels than the training data (classification labels for the metrics), listed in another order
      test = []
      for cid, ds, _ in reversed(train):
        ex = dict(ds.raw_examples)
        ex['x'] = (ex['x'][::-1] * 0.5).astype(np.float32)
        ex['y'] = (np.arange(len(ds)) % 2).astype(np.int32)
        test.append((cid, fedjax.ClientDataset(ex)))
      nc = dict(case, order=list(order), train=tname)
      losses = {cid: [_avg_loss(p, ds.raw_examples) + regv(p) for p in cl] for cid, ds, _ in train}
      got_assign = hc.maximization_step(avg, jcl, train, hp)
      require(set(got_assign) == {c[0] for c in train}, 'maximization_step: one assignment per client', case=nc)
      for cid, a in got_assign.items():
        ls = losses[cid]
        require(0 <= int(a) < len(cl) and ls[int(a)] <= min(ls) + 1e-5 * (1 + abs(min(ls))),
                'maximization_step assigned client %r to cluster %d whose average loss is not minimal' % (cid, int(a)), ls, int(a), case=nc)
      res = list(evaluator.evaluate_clients(jcl, train, test, hp))
      require(sorted(c for c, _ in res) == sorted(c for c, _ in test), 'evaluate_clients: exactly one result per test client',
              [c for c, _ in test], [c for c, _ in res], case=nc)
      by = dict(res)
      for cid, ds in test:
        ex = ds.raw_examples
        ls = losses[cid]
        cands = []
        for j, p in enumerate(cl):
          if ls[j] <= min(ls) + 1e-5 * (1 + abs(min(ls))):
            f = ex['x'].astype(np.float64) @ p['w'] + p['b']
            lg = np.stack([f, -f], -1)
            n = len(f)
            if n == 0:
              cands.append((0.0, 0.0))
              continue
            acc = float(np.mean(np.argmax(lg, -1) == ex['y']))
            m = lg.max(-1)
            ce = float(np.mean(m + np.log(np.exp(lg - m[:, None]).sum(-1)) - lg[np.arange(n), ex['y']]))
            cands.append((acc, ce))
        g = (float(by[cid]['acc']), float(by[cid]['ce']))
        require(any(core.close(g[0], c[0]) and core.close(g[1], c[1]) for c in cands),
                'client %r was not evaluated with a cluster of minimal average training loss (or not on its own test data)' % (cid,),
                cands, g, case=nc)
        outs.add(core.digest([round(g[0], 4), round(g[1], 4)]))
      evals += 1
      keys.append(['hyp_eval', lam, bs, buckets, list(order), tname])
  return {'evals': evals, 'states': 0, 'transitions': 0, 'traces': evals, 'outcomes': sorted(outs), 'nontrivial': True, 'keys': keys}


# ---- MimeLite ---------------------------------------------------------------------------------------------

def mimelite(case):
  clip, base, depth = case['clip'], case['base'], case['depth']
  lr, slr = 0.5, 0.5
  alg, init = systems.build('mime_lite', base=base, lr=lr, server_lr=slr, loss='rng', clip=clip)
  _, c_ref = algos.make_opt('sgd', lr)
  hparams = systems._hp(2, 1, None, 0)
  pop = algos.population([2, 3, 0, 4], case.get('seed', 0))
  # H: one example with finite features of magnitude 1e10 - its single-step update is finite (about 1e20) but the SQUARE
  # of its norm is not representable in float32; nothing above the bound may reach the aggregate
  import fedjax
  import jax
  pop.append((b'huge', fedjax.ClientDataset({'x': np.asarray([[1e10, -1e10]], np.float32), 'y': np.asarray([1.0], np.float32),
                                             'domain_id': np.zeros(1, np.int32)}), jax.random.PRNGKey(77)))
  cohorts = {'A': [0], 'B': [1], 'AB': [0, 1], 'AC': [0, 2], 'D': [3], 'C': [2], 'H': [4], 'AH': [0, 4]}
  stats = {'states': 1, 'transitions': 0, 'clipped': 0}
  outs = set()

  def rec(hist, state):
    if len(hist) >= depth:
      return
    for name, idxs in cohorts.items():
      h2 = hist + [name]
      if 'history' in case and case['history'][:len(h2)] != h2:
        continue
      nc = dict(case, history=h2)
      cohort = [pop[i] for i in idxs]
      new, diag = alg.apply(state, cohort)
      p_old = {kk: np.asarray(v, np.float64) for kk, v in state.params.items()}
      p_new = {kk: np.asarray(v, np.float64) for kk, v in new.params.items()}
      upd = np.sqrt(sum(np.sum((p_new[kk] - p_old[kk]) ** 2) for kk in p_old))
      require(np.isfinite(upd) and upd <= slr * clip * (1 + 1e-5) + 1e-7, 'the aggregated update is larger than '
              'server_lr * clip: some client update above the bound was aggregated', slr * clip, float(upd), case=nc)
      for cid in diag:
        cn = float(np.asarray(diag[cid]['clipped_delta_l2_norm']))
        dn = float(np.asarray(diag[cid]['delta_l2_norm']))
        require(cn <= clip * (1 + 1e-5) + 1e-7, 'client %r: clipped norm exceeds the bound' % cid, clip, cn, case=nc)
        require(cn <= dn * (1 + 1e-5) + 1e-7, 'client %r: clipping increased the norm' % cid, dn, cn, case=nc)
        if dn > clip * (1 + 1e-4):
          stats['clipped'] += 1
      if base == 'sgd' and 'H' not in name:
        tot = {kk: np.zeros_like(v) for kk, v in p_old.items()}
        ntot = 0.0
        for cid, ds, key in cohort:
          delta, _ = algos.ref_client_delta(p_old, list(ds.shuffle_repeat_batch(hparams)), key, c_ref, 'rng')
          nrm = np.sqrt(sum(np.sum(v ** 2) for v in delta.values()))
          scale = min(1.0, clip / nrm) if nrm > 0 else 1.0
          for kk in tot:
            tot[kk] += len(ds) * scale * delta[kk]
          ntot += len(ds)
        want = {kk: p_old[kk] - slr * (tot[kk] / ntot if ntot else 0) for kk in p_old}
        require(algos.params_close(p_new, want), 'new params != params - server_lr * weighted mean of the clipped client '
                'deltas', algos.plist(want), algos.plist(p_new), case=nc)
      stats['transitions'] += 1
      stats['states'] += 1
      outs.add(core.digest(algos.plist(p_new)))
      if 'H' not in name:   # histories end with the huge client (its gradients make later optimizer statistics overflow)
        rec(h2, new)
  rec([], init)
  return {'evals': stats['transitions'], 'states': stats['states'], 'transitions': stats['transitions'],
          'traces': stats['transitions'], 'outcomes': sorted(outs), 'nontrivial': True,
          'keys': [['mimelite', clip, base, i] for i in range(stats['transitions'])],
          'stats': {'client_updates_above_the_bound': stats['clipped']}}


# ---- ignore_grads_haiku -----------------------------------------------------------------------------------

NAMES = [('m1', 'w'), ('m1', 'b'), ('m2', 'w'), ('m2', 'b')]


def ignore_grads(case):
  import haiku as hk
  import jax
  import jax.numpy as jnp
  import fedjax
  if case['base'] == 'clipmom':
    # a base optimizer that couples the leaves (global-norm clipping): gradients of ignored parameters must not leak into it
    import optax
    base = fedjax.optimizers.create_optimizer_from_optax(optax.chain(optax.clip_by_global_norm(1.0),
                                                                     optax.sgd(0.25, momentum=0.5)))
  else:
    base, _ = algos.make_opt(case['base'], 0.25)
  nt = [tuple(x) for x in case['ignored']]
  params = hk.data_structures.to_immutable_dict({
      'm1': {'w': jnp.array([1., 2.]), 'b': jnp.array(0.5)},
      'm2': {'w': jnp.array([[1., -1.]]), 'b': jnp.array([3.])}})
  opt = fedjax.optimizers.ignore_grads_haiku(base, list(nt))
  # ONE wrapped optimizer object serves several models, interleaved: the full model, a head-only variant that lacks module
  # m1 (other shapes), and a body-only variant that lacks m2 - init() of one must not disturb the steps of another
  models = [params]
  if case.get('multi', True):
    models += [hk.data_structures.to_immutable_dict({'m2': {'w': jnp.array([[2., .5, 1.]]), 'b': jnp.array([1., 2.])}}),
               hk.data_structures.to_immutable_dict({'m1': {'w': jnp.array([4., -3.]), 'b': jnp.array(-1.5)}}),
               hk.data_structures.to_immutable_dict({'m1': {'w': jnp.array([4., -3., 1.]), 'b': jnp.array(-1.5)},
                                                     'm2': {'w': jnp.array([[0.5], [2.]]), 'b': jnp.array([1., 1.])}})]
  runs = []
  for mp in models:
    tr = {m: {k: v for k, v in d.items() if (m, k) not in nt} for m, d in mp.items()}
    tr = {m: d for m, d in tr.items() if d} if case.get('drop_empty') else tr
    runs.append({'params': mp, 'st': None, 'p': mp, 'rst': base.init(tr), 'rp': tr})
  for r in runs:            # every model is initialised before any of them steps
    r['st'] = opt.init(r['params'])
  evals = 0
  # a model that lacks one of the named entries can be initialised (no entry to blank out) but not stepped (apply looks the
  # named entries up): such models are only (re-)initialised, before every step of the others
  can_step = [all(m in r['params'] and k in r['params'][m] for m, k in nt) for r in runs]
  for step in range(3):
    for mi, r in enumerate(runs):
      if not can_step[mi]:
        opt.init(r['params'])
        continue
      mp = r['params']
      grads = jax.tree_util.tree_map(lambda x: x * (0.5 + step) + 1 - step, mp)
      r['st'], r['p'] = opt.apply(grads, r['st'], r['p'])
      g = {m: {k: grads[m][k] for k in d} for m, d in r['rp'].items()}
      r['rst'], r['rp'] = base.apply(g, r['rst'], r['rp'])
      for (m, k) in NAMES:
        if m not in mp:
          continue
        if (m, k) in nt:
          a_, b_ = np.asarray(r['p'][m][k]), np.asarray(mp[m][k])
          require(a_.dtype == b_.dtype and a_.tobytes() == b_.tobytes(), 'ignored parameter %s/%s of model %d is not bit-identical after '
                  'step %d' % (m, k, mi, step + 1), b_.tolist(), a_.tolist())
        else:
          require(bool(np.allclose(np.asarray(r['p'][m][k]), np.asarray(r['rp'][m][k]), rtol=1e-6, atol=1e-7)),
                  'trainable parameter %s/%s of model %d differs from the base optimizer run on the trainable sub-tree (step %d)'
                  % (m, k, mi, step + 1), np.asarray(r['rp'][m][k]).tolist(), np.asarray(r['p'][m][k]).tolist())
      evals += 1
  return {'evals': evals, 'nontrivial': 0 < len(nt) < 4, 'outcome': [case['base'], len(nt)]}


SUBS = {'agnostic': agnostic, 'apfl': apfl, 'hyp': hyp, 'mimelite': mimelite, 'ignore_grads': ignore_grads, 'hyp_eval': hyp_eval}
TIMEOUTS = {k: 3000 for k in SUBS}


# sub-spaces re-executed under other interpreter configurations (mc.core.CONFIGS): {configuration: {sub-space: stride}}
# quick tier: every stride-th planned case, thorough tier: all planned cases
CONFIG_PASSES = {'x64': {'agnostic': 3, 'apfl': 3, 'hyp': 3, 'mimelite': 3, 'ignore_grads': 8}}


def plan(ctx):
  th = ctx.tier == 'thorough'
  d = 3 if th else 2
  ctx.rule = ('AgnosticFedAvg: domains {2,3} x window {1,2,3} x domain lr {0,1/8,1} x all cohort histories to depth %d over '
              'cohorts that starve domains; APFL: client lr {1/8,4} x coefficient {0,0.5,1} x histories; HypCluster: clusters '
              '{2,3} x server optimizer {sgd,momentum} (+ an L2 regularizer that takes part in the assignment) x histories with reference per-cluster FedAvg; MimeLite: clip {0,1/8,1,1e6} '
              'x base {sgd,momentum} x histories; ignore_grads_haiku: all 16 subsets x {sgd,momentum,adam,global-norm-clip+momentum} x 3 steps'
              % (d + 1))
  ctx.assumptions += ['every history is executed; invariants are evaluated in every reached state',
                      'AgnosticFedAvg histories in which a domain has no example in the whole window are the known finding F13']
  s = ctx.seed
  ag = [{'domains': nd, 'window': w, 'dlr': lr, 'depth': d + 1 if nd == 2 else d, 'seed': s}
        for nd in (2, 3) for w in (1, 2, 3) for lr in (0.0, 0.125, 1.0)
        if th or (nd == 2 and lr != 0.0) or (nd == 3 and w == 2 and lr == 0.125)]
  ctx.pmap('agnostic', ag, chunk=1)
  ctx.pmap('apfl', [{'lr': lr, 'coef': c, 'depth': d, 'seed': s} for lr in (0.125, 4.0) for c in (0.0, 0.5, 1.0)
                    if th or c != 0.0], chunk=1)
  ctx.pmap('hyp', [{'clusters': k, 'sopt': so, 'depth': d, 'seed': s} for k in (2, 3) for so in ('sgd', 'mom')] +
           [{'clusters': 3, 'sopt': 'sgd', 'depth': d, 'seed': s, 'reg': lam} for lam in ((0.5, 2.0) if th else (0.5,))] +
           [{'clusters': 2, 'sopt': 'mom', 'depth': 2, 'seed': s, 'backend': be} for be in (('pmap2', 'pmap3') if th else ('pmap2',))], chunk=1)
  ctx.pmap('hyp_eval', [{'reg': lam, 'bs': bs, 'buckets': bk, 'seed': s, 'orders_stride': 1 if th else 4, 'orders_offset': (bs + bk) % 4}
                        for lam in (None, 0.5) for bs in (1, 2, 3) for bk in (1, 2) if th or (bs, bk) in ((1, 1), (2, 2), (3, 1))], chunk=1)
  # clip 0.0 / 0: a legal bound (every aggregated update is the zero vector), falsy in Python
  ctx.pmap('mimelite', [{'clip': c, 'base': b, 'depth': d, 'seed': s} for c in (0.125, 1.0, 1e6) for b in ('sgd', 'mom')] +
           [{'clip': c, 'base': 'sgd', 'depth': min(d, 2), 'seed': s} for c in (0.0, 0)], chunk=1)
  # long single histories (12 rounds)
  ctx.pmap('agnostic', [{'domains': 2, 'window': 2, 'dlr': 0.125, 'depth': 12, 'seed': s,
                         'history': ['d0+d1', 'mix', 'd0', 'd1', 'mix', 'd0+d1', 'd0+empty', 'd1', 'mix', 'd0', 'd1', 'd0+d1']}], chunk=1)
  ctx.pmap('apfl', [{'lr': 0.125, 'coef': 0.5, 'depth': 12, 'seed': s,
                     'history': ['AB', 'A', 'B', 'AB', 'A', 'A', 'B', 'AB', 'B', 'A', 'AB', 'B']}], chunk=1)
  ctx.pmap('hyp', [{'clusters': 3, 'sopt': 'mom', 'depth': 12, 'seed': s,
                    'history': ['AB', 'A', 'BA', 'ABD', 'B', 'A2', 'AB', 'DBA', 'A', 'A2B', 'AB', 'B']}], chunk=1)
  ctx.pmap('mimelite', [{'clip': 0.125, 'base': 'mom', 'depth': 12, 'seed': s,
                         'history': ['AB', 'A', 'B', 'AC', 'D', 'AB', 'A', 'D', 'B', 'AB', 'AC', 'AH']}], chunk=1)
  ig = [{'base': b, 'ignored': [list(x) for x in sub]} for b in ('sgd', 'mom', 'adam', 'clipmom') for r in range(0, 5)
        for sub in itertools.combinations(NAMES, r)]
  ctx.pmap('ignore_grads', ig, chunk=12)

#!/usr/bin/env python3
"""Markdown table of /verif/seeded/*/meta.json (which check caught which independently authored change)."""
import glob, json, os, re, sys
old = {}
if len(sys.argv) > 1 and os.path.exists(sys.argv[1]):
  for l in open(sys.argv[1]):
    m = re.match(r'(C\d+-m\d) old-check violations=(\d+)', l)
    if m:
      old[m.group(1)] = int(m.group(2))
print('| seed | changed file | what the change does / what it needs to manifest | caught by (first violating case) | first version of the check |')
print('|---|---|---|---|---|')
for d in sorted(glob.glob('/verif/seeded/*')):
  lab = os.path.basename(d)
  m = json.load(open(d + '/meta.json'))
  v = m.get('verification', {})
  prop = v.get('property', lab[:3])
  ck = v.get('checks', {}).get(prop, {})
  first = (ck.get('first') or [''])[0].replace('  case: ', '')
  sub = first.split('/')[0] if first else '?'
  files = ', '.join(os.path.basename(f) for f in (m.get('files') or []))[:60]
  summ = re.sub(r'\s+', ' ', str(m.get('summary', '')))[:170]
  needs = re.sub(r'\s+', ' ', str(m.get('needs', '')))[:150]
  pre = 'caught' if lab not in old else ('caught (%d)' % old[lab] if old[lab] else '**missed** - alphabet/oracle extended, see 11.5')
  print('| %s | %s | %s *Needs:* %s | `%s` (%d violation lines) | %s |' % (lab, files, summ.replace('|', '/'), needs.replace('|', '/'), sub, ck.get('violations', 0), pre))

import itertools, numpy as np, jax, jax.numpy as jnp
import fedjax
from fedjax.core import metrics as M
C=3; grid=[-1.,0.,1.]
def ref_argmax(p): 
    m=max(p); return [i for i,v in enumerate(p) if v==m][0]
def ref_topk(p,k):
    order=sorted(range(len(p)), key=lambda i:(-p[i], i)); return order[:max(k,0)]
bad={}
def note(name, case): bad.setdefault(name,[]).append(case)
# single-label metrics
preds=list(itertools.product(grid, repeat=C))
P=jnp.array(preds); 
for t in range(C):
    T=jnp.full((len(preds),), t)
    acc=jax.vmap(lambda y,p: M.Accuracy().evaluate_example({'y':y},p).result())(T,P)
    for i,p in enumerate(preds):
        if float(acc[i])!=float(ref_argmax(p)==t): note('acc',(t,p))
    for k in (-2,-1,0,1,2,3,4):
        tk=jax.vmap(lambda y,p: M.TopKAccuracy(k=k).evaluate_example({'y':y},p).result())(T,P)
        for i,p in enumerate(preds):
            if float(tk[i])!=float(t in ref_topk(p,k)): note(f'topk k={k}',(t,p))
    cm=jax.vmap(lambda y,p: M.ConfusionMatrix(num_classes=C).evaluate_example({'y':y},p).result())(T,P)
    for i,p in enumerate(preds):
        e=np.zeros((C,C)); e[t,ref_argmax(p)]=1
        if not np.array_equal(np.asarray(cm[i]),e): note('cm',(t,p))
# sequence metrics L=2, C=2
C2=2; L=2
smat=list(itertools.product(grid, repeat=L*C2)); SP=jnp.array(smat).reshape(-1,L,C2)
for tg in itertools.product(range(3), repeat=L):   # target values 0..2 where class ids 0..1 ; 2 may be masked / out of range
    if max(tg)>=C2: continue
    T=jnp.tile(jnp.array(tg),(len(smat),1))
    for mtv in [(),(0,),(0,1)]:
      for lm in [None,(0.,-jnp.inf),(-jnp.inf,0.)]:
        for pp in (False,True):
          m=M.SequenceTokenAccuracy(masked_target_values=mtv, logits_mask=lm, per_position=pp)
          st=jax.vmap(lambda y,p: m.evaluate_example({'y':y},p))(T,SP)
          acc=np.asarray(st.accum); w=np.asarray(st.weight)
          for i,sm in enumerate(smat):
              rows=[list(sm[j*C2:(j+1)*C2]) for j in range(L)]
              if lm is not None: rows=[[v+ (float(l) if np.isfinite(float(l)) else -np.inf) for v,l in zip(r,lm)] for r in rows]
              wt=[float(t not in mtv) for t in tg]; cor=[float(ref_argmax(r)==t) for r,t in zip(rows,tg)]
              ea=[c*x for c,x in zip(cor,wt)]
              if pp:
                  ew=wt; ea=[a if x>0 else 0. for a,x in zip(ea,wt)]
                  ok=list(acc[i])==ea and list(w[i])==ew
              else:
                  sw=sum(wt); sa=sum(ea) if sw>0 else 0.
                  ok=float(acc[i])==sa and float(w[i])==sw
              if not ok: note(f'sta mtv={mtv} lm={lm} pp={pp}',(tg,sm)); break
for k,v in bad.items(): print(k, len(v), v[:2])
print('done')

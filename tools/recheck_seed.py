#!/usr/bin/env python3
"""recheck_seed.py <label> [--checks C01,C02] [--tier quick]: re-runs the CURRENT checks against a kept seeded change
(/verif/seeded/<label>/patch.diff) in a scratch worktree and records the result in meta.json (verification.checks; the
result of the version that had not seen the seed is kept as verification.frozen_checks)."""
import json, os, shutil, subprocess, sys, time
label = sys.argv[1]
args = sys.argv[2:]
d = '/verif/seeded/' + label
meta = json.load(open(d + '/meta.json'))
ver = meta.setdefault('verification', {})
checks = [meta.get('property', label.split('-')[0])]
tier = 'quick'
for i, a in enumerate(args):
  if a == '--checks': checks = args[i + 1].split(',')
  if a == '--tier': tier = args[i + 1]
wt = '/tmp/rc_' + label
sh = lambda c: subprocess.run(c, shell=True, capture_output=True, text=True)
sh('git -C /repo worktree remove --force %s' % wt)
r = sh('git -C /repo worktree add --detach %s HEAD' % wt)
assert r.returncode == 0, r.stderr
try:
  ap = sh('git -C %s apply --whitespace=nowarn %s/patch.diff' % (wt, d))
  assert ap.returncode == 0, ap.stderr
  if 'frozen_checks' not in ver and 'checks' in ver:
    ver['frozen_checks'] = ver['checks']
  ver['checks'] = dict(ver.get('checks', {})) if set(checks) - {meta.get('property')} else {}
  for c in checks:
    t = time.time()
    v = sh('cd /verif && VERIF_REPO=%s ./vcheck %s --tier %s' % (wt, c, tier))
    lines = v.stdout.splitlines()
    ver['checks'][c] = {'exit': v.returncode, 'violations': sum(1 for l in lines if l.startswith('VIOLATION')),
                        'first': [l for l in lines if l.startswith('  case:') or l.startswith('  why')][:4],
                        'harness': [l for l in lines if 'HARNESS' in l][:2], 'wall_s': round(time.time() - t)}
finally:
  sh('git -C /repo worktree remove --force %s' % wt)
  shutil.rmtree(wt, ignore_errors=True)
json.dump(meta, open(d + '/meta.json', 'w'), indent=1)
print(label, {c: (v['exit'], v['violations'], v['harness']) for c, v in ver['checks'].items()})

"""./vcheck <Cxx> --tier quick|thorough [--replay FILE]"""
import argparse
import glob
import importlib
import json
import os
import subprocess
import sys
import traceback

from mc import core


def find_module(prop):
  here = os.path.join(core.VERIF, 'mc', 'checks')
  hits = sorted(glob.glob(os.path.join(here, prop.lower() + '_*.py')))
  if not hits:
    raise SystemExit('no check module for ' + prop)
  return 'mc.checks.' + os.path.basename(hits[0])[:-3]


def assert_repo():
  import fedjax
  root = os.path.realpath(os.environ.get('VERIF_REPO', '/repo'))
  f = os.path.realpath(fedjax.__file__)
  if not f.startswith(root + os.sep):
    raise core.HarnessError('fedjax imported from %s, not from %s' % (f, root))


def validate_evidence(path):
  schema = '/root/.vp/EVIDENCE.schema.json'
  if not os.path.exists(schema):
    schema = os.path.join(core.VERIF, 'mc', 'EVIDENCE.schema.json')
  code = ('import json,sys,jsonschema;'
          'jsonschema.validate(json.load(open(sys.argv[1])), json.load(open(sys.argv[2])))')
  for py in ('python3-vt', '/opt/veriftools/pyvenv/bin/python'):
    try:
      r = subprocess.run([py, '-c', code, path, schema], capture_output=True, text=True, timeout=120)
    except FileNotFoundError:
      continue
    if r.returncode != 0:
      raise core.HarnessError('evidence file does not validate: ' + r.stderr[-1500:])
    return True
  return False


def main(argv=None):
  ap = argparse.ArgumentParser()
  ap.add_argument('prop')
  ap.add_argument('--tier', default=os.environ.get('VERIF_TIER', 'quick'), choices=['quick', 'thorough'])
  ap.add_argument('--replay')
  ap.add_argument('--only', help='comma separated sub-space names (debugging; evidence marks the restriction)')
  a = ap.parse_args(argv)
  prop = a.prop.upper()
  seed = int(os.environ.get('VERIF_SEED', '0') or 0)
  modname = find_module(prop)
  if a.replay:
    # a case recorded under an interpreter configuration ('<sub>@<cfg>') needs it before jax is imported
    try:
      with open(a.replay) as f:
        os.environ.update(core.config_env(json.load(f)['sub']))
    except (OSError, KeyError, ValueError):
      pass
  try:
    assert_repo()
    mod = importlib.import_module(modname)
  except core.HarnessError as e:
    print('HARNESS-ERROR: %s' % e)
    return 2

  if a.replay:
    with open(a.replay) as f:
      rp = json.load(f)
    dec = getattr(mod, 'decode_case', lambda c: c)
    rec = core.execute(modname, rp['sub'], dec(rp['case']))
    if rec['status'] == 'violation':
      print('VIOLATION property=%s replay=%s' % (prop, a.replay))
      print('  why : %s' % rec.get('msg'))
      print('  expected: %s\n  observed: %s' % (str(rec.get('expected'))[:1500], str(rec.get('observed'))[:1500]))
      return 1
    if rec['status'] == 'harness':
      print('HARNESS-ERROR: %s' % rec['msg'])
      return 2
    print('replay passed: the recorded case no longer violates %s' % prop)
    return 0

  ctx = core.Ctx(prop, mod.LEVEL, a.tier, seed, modname)
  ctx.only = set(a.only.split(',')) if a.only else None
  err = None
  try:
    mod.plan(ctx)
    if hasattr(mod, 'CONFIG_PASSES'):
      ctx.config_passes(mod.CONFIG_PASSES)
    if hasattr(mod, 'finish'):
      mod.finish(ctx)
  except core.HarnessError as e:
    err = str(e)
  except Exception:  # pylint: disable=broad-except
    err = traceback.format_exc()
  finally:
    ctx.close()
  path = None
  if ctx.only:
    # debugging restriction: the committed evidence of the full run is left alone
    print('(--only %s: partial run, evidence file not rewritten)' % ','.join(sorted(ctx.only)))
  else:
    path = ctx.write_evidence(error=err)
  if err is None and path:
    try:
      validate_evidence(path)
    except core.HarnessError as e:
      err = str(e)
  print('%s tier=%s seed=%d evaluations=%d distinct_nontrivial=%d states=%d transitions=%d violations=%d '
        'known=%d wall=%.1fs' % (prop, a.tier, seed, ctx.evaluations, len(ctx.nontrivial), ctx.states,
                                 ctx.transitions, len(ctx.violations), len(ctx.known_hits),
                                 __import__('time').time() - ctx.t0))
  for sub, sp in ctx.subspaces.items():
    print('  %-34s %s' % (sub, ' '.join('%s=%s' % kv for kv in sp.items())))
  if err:
    print('HARNESS-ERROR: %s' % err)
  if ctx.violations:
    if len(ctx.violations) > core.MAX_REPORTED:
      print('  (%d further violating cases not written out)' % (len(ctx.violations) - core.MAX_REPORTED))
    return 1
  if err:
    return 2
  return 0


if __name__ == '__main__':
  sys.exit(main())

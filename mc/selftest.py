"""MANIFEST.setup_cmd: offline self-test of the harness (nothing is built; fedjax is imported from /repo)."""
import json
import os
import sys
import tempfile

from mc import cli, core


def main():
  cli.assert_repo()
  import fedjax, jax  # noqa
  assert jax.default_backend() == 'cpu'
  # evidence schema validation of a dummy record through the tooling venv
  ctx = core.Ctx('C00', 'exploration', 'quick', 0, 'mc.selftest')
  ctx.evaluations = 2
  ctx.nontrivial = {'a', 'b'}
  ctx.samples = [{'case': 1}]
  ctx.rule = 'dummy'
  p = ctx.write_evidence()
  try:
    ok = cli.validate_evidence(p)
  finally:
    os.remove(p)
  print('selftest ok: fedjax from %s, jax %s, %d devices, evidence validation %s'
        % (os.path.dirname(fedjax.__file__), jax.__version__, jax.device_count(), 'on' if ok else 'UNAVAILABLE'))
  # all check modules import
  import glob, importlib
  for f in sorted(glob.glob(os.path.join(core.VERIF, 'mc', 'checks', 'c*_*.py'))):
    importlib.import_module('mc.checks.' + os.path.basename(f)[:-3])
  return 0


if __name__ == '__main__':
  sys.exit(main())

"""Boring reference models for client-dataset batching (written from the docstrings)."""
import math


def final_bucket_size(remainder, batch_size, buckets):
  """Smallest of batch_size // 2**k, k < buckets, that still holds `remainder` rows."""
  assert 1 <= remainder <= batch_size
  cands = []
  b = batch_size
  for _ in range(buckets):
    cands.append(b)
    b //= 2
  ok = [c for c in cands if c >= remainder]
  return min(ok)


def seq_chunks(n, batch_size):
  """[(start, stop)] of the sequential partition of range(n)."""
  return [(s, min(s + batch_size, n)) for s in range(0, n, batch_size)]


def plain_batches(n, batch_size, drop_remainder):
  ch = seq_chunks(n, batch_size)
  if drop_remainder and ch and ch[-1][1] - ch[-1][0] < batch_size:
    ch = ch[:-1]
  return ch


def padded_sizes(n, batch_size, buckets):
  """Row count of every padded batch."""
  out = []
  for s, e in seq_chunks(n, batch_size):
    r = e - s
    out.append(batch_size if r == batch_size else final_bucket_size(r, batch_size, buckets))
  return out


def shuffle_num_steps(n, batch_size, num_epochs, num_steps, drop_remainder):
  """Documented number of batches of shuffle_repeat_batch (None = infinite)."""
  if num_epochs is None:
    return num_steps
  total = n * num_epochs
  k = total // batch_size if drop_remainder else math.ceil(total / batch_size)
  if num_steps is not None:
    k = min(k, num_steps)
  return k

"""Constructors of the built-in federated algorithms on the toy regression problem (mc/algos.py).

Every constructor returns (algorithm, initial state). Instances are cached per process (jit caches)
unless fresh=True, which is what the "fresh object" differential of C10 needs.
"""
import numpy as np

from mc import algos

_CACHE = {}


def _hp(bs=2, epochs=1, steps=None, seed=0, drop=False, skip=False):
  import fedjax
  if isinstance(seed, str):   # 'int64:7' -> np.int64(7): seeds taken from NumPy (np.random.randint, array indexing)
    seed = getattr(np, seed.split(':')[0])(int(seed.split(':')[1]))
  return fedjax.ShuffleRepeatBatchHParams(batch_size=bs, num_epochs=epochs, num_steps=steps, seed=seed, drop_remainder=drop,
                                          skip_shuffle=skip)


def _php(bs=2, buckets=1):
  import fedjax
  return fedjax.PaddedBatchHParams(batch_size=bs, num_batch_size_buckets=buckets)


def build(name, fresh=False, **kw):
  key = (name, tuple(sorted(kw.items())))
  if not fresh and key in _CACHE:
    return _CACHE[key]
  backend = kw.pop('backend', None)
  if backend:
    import jax
    from fedjax.core import for_each_client as fec
    be = fec.ForEachClientPmapBackend(jax.local_devices()[:int(backend[4:])]) if backend.startswith('pmap') else backend
    with fec.for_each_client_backend(be):
      out = BUILDERS[name](**kw)
  else:
    out = BUILDERS[name](**kw)
  if not fresh:
    _CACHE[key] = out
  return out


def fed_avg(copt='sgd', sopt='mom', lr_c=0.125, lr_s=0.5, loss='rng', hp=(2, 1, None, 0)):
  import fedjax
  from fedjax.algorithms import fed_avg as m
  c, _ = algos.make_opt(copt, lr_c)
  s, _ = algos.make_opt(sopt, lr_s)
  alg = m.federated_averaging(fedjax.grad(algos.make_loss(loss)), c, s, _hp(*hp))
  return alg, alg.init(algos.jparams())


def fed_prox(mu=0.5, copt='sgd', sopt='mom', lr_c=0.125, lr_s=0.5, loss='rng', hp=(2, 1, None, 0)):
  from fedjax.algorithms import fed_prox as m
  c, _ = algos.make_opt(copt, lr_c)
  s, _ = algos.make_opt(sopt, lr_s)
  alg = m.fed_prox(algos.make_loss(loss), c, s, _hp(*hp), proximal_weight=mu)
  return alg, alg.init(algos.jparams())


def mime(base='mom', lr=0.125, server_lr=0.5, loss='rng', hp=(2, 1, None, 0), ghp=(2, 1), reg=None):
  import fedjax
  from fedjax.algorithms import mime as m
  b, _ = algos.make_opt(base, lr)
  r = fedjax.regularizers.l2_regularizer(reg) if reg else None
  alg = m.mime(algos.make_loss(loss), b, _hp(*hp), _php(*ghp), server_learning_rate=server_lr, regularizer=r)
  return alg, alg.init(algos.jparams())


def mime_lite(base='mom', lr=0.125, server_lr=0.5, loss='rng', hp=(2, 1, None, 0), ghp=(2, 1), clip=None):
  from fedjax.algorithms import mime_lite as m
  b, _ = algos.make_opt(base, lr)
  alg = m.mime_lite(algos.make_loss(loss), b, _hp(*hp), _php(*ghp), server_learning_rate=server_lr,
                    client_delta_clip_norm=clip)
  return alg, alg.init(algos.jparams())


def agnostic(domains=2, window=2, dlr=0.125, copt='sgd', sopt='sgd', lr_c=0.125, lr_s=0.5, loss='rng',
             hp=(2, 1, None, 0), dhp=(2, 1)):
  import jax.numpy as jnp
  from fedjax.algorithms import agnostic_fed_avg as m
  c, _ = algos.make_opt(copt, lr_c)
  s, _ = algos.make_opt(sopt, lr_s)
  w0 = jnp.ones((domains,), jnp.float32) / domains
  alg = m.agnostic_federated_averaging(algos.make_loss(loss), c, s, _hp(*hp), _php(*dhp), init_domain_weights=w0,
                                       domain_learning_rate=dlr, domain_window_size=window,
                                       init_domain_window=jnp.ones((domains,), jnp.float32))
  return alg, alg.init(algos.jparams())


def half_l2(lam):
  """regularizer(params) = lam/2 * |params|^2 (gradient lam * params)."""
  import jax
  import jax.numpy as jnp
  return lambda p: 0.5 * lam * sum(jnp.sum(l * l) for l in jax.tree_util.tree_leaves(p))


def hyp_cluster(clusters=2, copt='sgd', sopt='mom', lr_c=0.125, lr_s=0.5, loss='plain', hp=(2, 1, None, 0), mhp=(2, 1),
                reg=None):
  from fedjax.algorithms import hyp_cluster as m
  c, _ = algos.make_opt(copt, lr_c)
  s, _ = algos.make_opt(sopt, lr_s)
  alg = m.hyp_cluster(algos.make_loss(loss), c, s, _php(*mhp), _hp(*hp), regularizer=half_l2(reg) if reg else None)
  inits = [algos.jparams(p) for p in CLUSTER_INITS[:clusters]]
  return alg, alg.init(inits)


CLUSTER_INITS = [algos.P0, {'w': [-0.25, 0.75], 'b': -0.5}, {'w': [1.5, 1.0], 'b': 2.0}]


def apfl(coef=0.5, copt='sgd', sopt='mom', lr_c=0.125, lr_s=0.5, loss='plain', hp=(2, 1, None, 0)):
  import fedjax
  from fedjax.algorithms import apfl as m
  c, _ = algos.make_opt(copt, lr_c)
  s, _ = algos.make_opt(sopt, lr_s)
  alg = m.adaptive_personalized_federated_learning(fedjax.grad(algos.make_loss(loss)), c, s, _hp(*hp),
                                                   client_coefficient=coef)
  return alg, alg.init(algos.jparams())


BUILDERS = {'fed_avg': fed_avg, 'fed_prox': fed_prox, 'mime': mime, 'mime_lite': mime_lite, 'agnostic': agnostic,
            'hyp_cluster': hyp_cluster, 'apfl': apfl}


def aggregator(name, fresh=False, seed=0):
  import jax
  from fedjax.aggregators import aggregator as agg, compression as comp
  key = ('agg', name, seed)
  if not fresh and key in _CACHE:
    return _CACHE[key]
  rng = jax.random.PRNGKey(seed)
  a = {
      'mean': lambda: agg.mean_aggregator(),
      'uniform': lambda: comp.uniform_stochastic_quantizer(4, rng),
      'uniform_arith': lambda: comp.uniform_stochastic_quantizer(4, rng, 'arithmetic'),
      'rotated': lambda: comp.rotated_uniform_stochastic_quantizer(4, rng),
      'drive': lambda: comp.structured_drive_quantizer(rng),
      'terngrad': lambda: comp.terngrad_quantizer(rng),
  }[name]()
  if not fresh:
    _CACHE[key] = a
  return a


def state_params(name, state):
  """The 'global model' of a server state."""
  if name == 'hyp_cluster':
    return state.cluster_params
  return state.params

"""C19 - downloaded and decompressed cache files appear only when complete.

E-fault: maybe_download / maybe_lzma_decompress (and the CIFAR-100 conversion step) are driven over
seams for open / os / requests / lzma; a crash (process death, open files keep a prefix) or an I/O
error (exception) is injected at every effect - every block of the transfer and of the decompression
copy loop - and the set of reachable cache-directory states is closed under further faults.
"""
import hashlib
import io
import lzma as real_lzma
import os
import shutil
import tempfile

import numpy as np

from mc import core, fault, seams
from mc.core import require, Violation, HarnessError
from mc.fault import Crash, InjectedIOError

PROPERTY = 'C19'
LEVEL = 'fault_enumeration'

BLOCK = 1 << 18
COPY = 64 * 1024


def payload(n, seed=0, kind='noise'):
  """Deterministic bytes: 'noise' (incompressible-ish), 'zeros', 'zero_tail' (noise, then zeros from the middle on - a
  database image with free pages at the end), 'zero_hole' (noise, zeros, noise)."""
  if kind == 'zeros':
    return bytes(n)
  if kind == 'zero_tail':
    return payload(n // 2, seed) + bytes(n - n // 2)
  if kind == 'zero_hole':
    return payload(n // 3, seed) + bytes(n // 3) + payload(n - 2 * (n // 3), seed + 1)
  out = bytearray()
  h = hashlib.sha256(b'seed%d' % seed).digest()
  while len(out) < n:
    h = hashlib.sha256(h).digest()
    out += h
  return bytes(out[:n])


WRITE_BUFFER = 8192


class CInjector(fault.Injector):
  """Injector that knows the open write handles: at process death they stop accepting data; with fault kind
  'crash_drop' the last (up to) WRITE_BUFFER bytes of every open handle are lost as well (data that was still
  sitting in the user-space buffer when the process died)."""

  def __init__(self, flt=None):
    super().__init__(flt)
    self.handles = []

  def effect(self, kind, name, nbytes=None):
    f = self.fault
    i = len(self.trace)
    if f is not None and f[0] == 'crash_drop' and f[1] == i:
      self.trace.append({'i': i, 'kind': kind, 'name': name, 'nbytes': nbytes})
      for h in self.handles:
        h.die(drop=True)
      self.dead = True
      raise Crash('crash before effect %d, unflushed tails lost' % i)
    if f is not None and f[0] == 'conn_error' and f[1] == i:
      self.trace.append({'i': i, 'kind': kind, 'name': name, 'nbytes': nbytes})
      raise ConnectionResetError('injected connection reset at effect %d %s %s' % (i, kind, name))
    try:
      return super().effect(kind, name, nbytes)
    except Crash:
      for h in self.handles:
        h.die(drop=False)
      raise


class FileSeam:
  """builtins.open replacement for the module under test (write side)."""

  def __init__(self, inj):
    self.inj = inj

  def __call__(self, path, mode='r', *a, **k):
    if 'w' not in mode and 'a' not in mode:
      return open(path, mode, *a, **k)
    return _WFile(self.inj, path, mode)


class _WFile:
  def __init__(self, inj, path, mode):
    self.inj, self.path, self.dead, self.closed = inj, path, False, False
    inj.effect('open', os.path.basename(path))
    self.f = open(path, mode)
    self.realpath = path
    if hasattr(inj, 'handles'):
      inj.handles.append(self)

  def die(self, drop):
    """Process death while this handle is open."""
    if self.dead or self.closed:
      return
    self._kill()
    if drop:
      # the file may have been renamed meanwhile: truncate through the (still valid) inode via its current names
      for cand in (self.realpath, self.realpath[:-len('.partial')] if self.realpath.endswith('.partial') else None):
        if cand and os.path.exists(cand):
          size = os.path.getsize(cand)
          with open(cand, 'r+b') as g:
            g.truncate(max(0, size - WRITE_BUFFER))
          break

  def write(self, data):
    if self.dead:
      raise Crash('write on dead handle')
    n = len(data)
    try:
      p = self.inj.effect('write', os.path.basename(self.path), n)
    except Crash:
      self._kill()
      raise
    except InjectedIOError:
      raise
    if p is not None:
      self.f.write(data[:p])
      self._kill()
      raise Crash('crash after %d of %d bytes' % (p, n))
    return self.f.write(data)

  def _kill(self):
    self.dead = True
    try:
      self.f.close()
    except Exception:  # pylint: disable=broad-except
      pass

  def close(self):
    if self.dead or self.closed:
      return
    self.inj.effect('close', os.path.basename(self.path))
    self.closed = True
    self.f.close()

  def __enter__(self):
    return self

  def __exit__(self, *exc):
    self.close()
    return False

  def __getattr__(self, name):
    return getattr(self.f, name)


def _inside(root, p):
  root, p = os.path.realpath(root), os.path.realpath(p)
  return p == root or p.startswith(root + os.sep)


class OsSeam:
  """os with effects. If `fs_root` is given, that directory (the cache) is its own file system: a rename across its
  boundary fails with EXDEV as on a real system."""

  def __init__(self, inj, fs_root=None):
    self._inj = inj
    self._root = fs_root
    self.path = _PathSeam(inj)

  def _xdev(self, a, b):
    if self._root is not None and _inside(self._root, a) != _inside(self._root, b):
      import errno
      raise OSError(errno.EXDEV, 'Invalid cross-device link', a)

  def makedirs(self, *a, **k):
    self._inj.effect('os', 'makedirs')
    return os.makedirs(*a, **k)

  def rename(self, a, b):
    self._inj.effect('os', 'rename(%s->%s)' % (os.path.basename(a), os.path.basename(b)))
    self._xdev(a, b)
    return os.rename(a, b)

  def replace(self, a, b):
    self._inj.effect('os', 'replace(%s->%s)' % (os.path.basename(a), os.path.basename(b)))
    self._xdev(a, b)
    return os.replace(a, b)

  def remove(self, a):
    self._inj.effect('os', 'remove(%s)' % os.path.basename(a))
    return os.remove(a)

  def __getattr__(self, name):
    return getattr(os, name)


class ShutilSeam:
  """shutil whose file-moving/copying functions are effects. The cache directory is its own file system (the usual
  situation: cache under $HOME or a network mount, temporary files under /tmp): a move that stays inside it is an atomic
  rename, a move or copy INTO it transfers the bytes into the destination name - open, write chunk by chunk, close - and
  can be interrupted after any of them."""
  CHUNK = 1 << 16

  def __init__(self, inj, fs_root):
    self._inj, self._root = inj, fs_root

  def _copy_into(self, src, dst):
    with open(src, 'rb') as f:
      data = f.read()
    with _WFile(self._inj, dst, 'wb') as out:
      for i in range(0, max(len(data), 1), self.CHUNK):
        out.write(data[i:i + self.CHUNK])

  def move(self, src, dst, *a, **k):
    self._inj.effect('os', 'move(%s->%s)' % (os.path.basename(str(src)), os.path.basename(str(dst))))
    if os.path.isdir(dst):
      dst = os.path.join(dst, os.path.basename(src))
    if _inside(self._root, src) == _inside(self._root, dst):
      os.rename(src, dst)
    else:
      self._copy_into(src, dst)
      os.unlink(src)
    return dst

  def _copy(self, name, src, dst):
    self._inj.effect('os', '%s(%s->%s)' % (name, os.path.basename(str(src)), os.path.basename(str(dst))))
    if os.path.isdir(dst):
      dst = os.path.join(dst, os.path.basename(src))
    self._copy_into(src, dst)
    return dst

  def copyfile(self, src, dst, *a, **k):
    return self._copy('copyfile', src, dst)

  def copy(self, src, dst, *a, **k):
    return self._copy('copy', src, dst)

  def copy2(self, src, dst, *a, **k):
    return self._copy('copy2', src, dst)

  def __getattr__(self, name):
    return getattr(shutil, name)


class _PathSeam:
  def __init__(self, inj):
    self._inj = inj

  def exists(self, p):
    self._inj.effect('os', 'exists(%s)' % os.path.basename(p))
    return os.path.exists(p)

  def __getattr__(self, name):
    return getattr(os.path, name)


class FakeRequests:
  def __init__(self, inj, data):
    self.inj, self.data, self.gets = inj, data, 0

  def get(self, url, stream=False):
    self.inj.effect('net', 'requests.get')
    self.gets += 1
    outer = self

    class Raw:
      def __init__(self):
        self.pos = 0

      def read(self, n):
        outer.inj.effect('net', 'raw.read')
        chunk = outer.data[self.pos:self.pos + n]
        self.pos += len(chunk)
        return chunk

    class Resp:
      headers = {'content-length': str(len(outer.data))}
      raw = Raw()

      def raise_for_status(self):
        pass
    return Resp()


def _fake_requests_getattr(self, name):
  """Any other way of talking to the server (HEAD, a Session, ...) is network traffic as well."""
  import requests as real_requests
  if name in ('head', 'post', 'put', 'request', 'options', 'patch', 'delete'):
    def touch(*a, **k):
      self.inj.effect('net', 'requests.' + name)
      self.gets += 1
      raise real_requests.ConnectionError('offline (fake transport): requests.%s' % name)
    return touch
  if name in ('Session', 'session'):
    self.gets += 1
    raise real_requests.ConnectionError('offline (fake transport): requests.Session')
  return getattr(real_requests, name)


FakeRequests.__getattr__ = _fake_requests_getattr


class LzmaSeam:
  """lzma.open whose reads are effects (errors / crashes can hit the copy loop on the read side)."""

  def __init__(self, inj):
    self.inj = inj

  def open(self, path, mode='rb'):
    self.inj.effect('lzma', 'open(%s)' % os.path.basename(path))
    f = real_lzma.open(path, mode)
    inj = self.inj

    class R:
      def read(self, n=-1):
        inj.effect('lzma', 'read')
        return f.read(n)

      def __enter__(self):
        return self

      def __exit__(self, *exc):
        f.close()
        return False

      def __getattr__(self, name):
        return getattr(f, name)
    return R()

  def __getattr__(self, name):
    return getattr(real_lzma, name)


def canon(state):
  return tuple((n, len(d), hashlib.sha1(d).hexdigest()) for n, d in state)


def faults_from(trace, with_errors=True):
  out = []
  for e in trace:
    out.append(('crash', e['i']))
    out.append(('crash_drop', e['i']))
    if with_errors:
      out.append(('error', e['i']))
      out.append(('interrupt', e['i']))   # Ctrl-C: a KeyboardInterrupt unwinds through the library's handlers
      if e['kind'] == 'net':
        out.append(('conn_error', e['i']))  # a transient network failure (ConnectionError family), not a plain OSError
    if e['kind'] == 'write' and e['nbytes']:
      n = e['nbytes']
      for p in sorted({0, 1, n // 2, n - 1}):
        out.append(('crash_write', e['i'], p))
  return out


def _explore(workdir, run, final_names, complete, what, case, expect_no_network_when_complete=None):
  """Generic fixpoint exploration + oracles. `complete`: name -> full content."""

  def nc(how):
    return dict(case, faults=how)

  def check_state(state, how):
    files = dict(state)
    for n in final_names:
      if n in files:
        require(files[n] == complete[n], '%s: final cache path %s exists but holds %d bytes instead of the complete '
                '%d-byte content (truncated/corrupt cache file)' % (what, n, len(files[n]), len(complete[n])),
                len(complete[n]), len(files[n]), case=nc(how))

  def check_clean(state, result, end, how):
    require(result[0] == 'ok', '%s: a fault-free call after the faults did not complete: %r' % (what, result),
            case=nc(how))
    files = dict(end)
    for n in final_names:
      require(n in files and files[n] == complete[n], '%s: after a successful call the cache file %s is missing or '
              'incomplete' % (what, n), case=nc(how))
    if expect_no_network_when_complete is not None:
      expect_no_network_when_complete(state, result, how)
  st = fault.explore(workdir, [()], run, lambda trace, depth: faults_from(trace), check_clean, check_state, canon=canon,
                     max_states=case.get('max_states', 3000))
  return st


def download(case):
  from fedjax.datasets import downloads
  n = case['size']
  data = payload(n, 1, case.get('kind', 'noise'))
  base = tempfile.mkdtemp(prefix='c19_')
  work = os.path.join(base, 'cache')
  name = 'file.bin'
  try:
    def run(flt):
      inj = CInjector(flt)
      req = FakeRequests(inj, data)
      res = None
      try:
        with seams.patched(downloads, open=FileSeam(inj), os=OsSeam(inj, work), shutil=ShutilSeam(inj, work), requests=req,
                           log=lambda *a, **k: None):
          p = downloads.maybe_download('https://example.org/dir/' + name, work, progress_=range)
        res = ('ok', p, req.gets, [e for e in inj.trace if e['kind'] == 'write'])
      except Crash:
        res = ('crash',)
      except (InjectedIOError, ConnectionError, KeyboardInterrupt):
        res = ('ioerror',)
      return res, inj.trace

    def no_net(state, result, how):
      files = dict(state)
      if name in files and files[name] == data:
        require(result[2] == 0 and not result[3], 'a complete cached file was not reused (network or writes happened)',
                'no requests.get, no writes', [result[2], len(result[3])], case=dict(case, faults=how))
      require(os.path.basename(result[1]) == name, 'returned path', case=dict(case, faults=how))
    # downloads has no module-level `open`: the seam is installed by setting the attribute
    if not hasattr(downloads, 'open'):
      downloads.open = open
    if not hasattr(downloads, 'shutil'):
      downloads.shutil = shutil
    st = _explore(work, run, [name], {name: data}, 'maybe_download', case, no_net)
    _, trace = (lambda: (fault.restore(work, ()), run(None))[1])()
    kinds = {e['kind'] for e in trace}
    if not {'os', 'open', 'net', 'write'} <= kinds and n > 0:
      # the implementation does not go through (all of) the seams: the faults that could not be injected are not explored
      case = dict(case, _cap='download seam incomplete (effect kinds seen: %s): faults on the missing kinds were not injected' % sorted(kinds))
  finally:
    shutil.rmtree(base, ignore_errors=True)
  return _info(st, case, trace)


def decompress(case):
  from fedjax.datasets import downloads
  n = case['size']
  data = payload(n, 2, case.get('kind', 'noise'))
  comp = real_lzma.compress(data)
  base = tempfile.mkdtemp(prefix='c19d_')
  work = os.path.join(base, 'cache')
  try:
    def run(flt):
      inj = CInjector(flt)
      # the compressed input is always present and complete (it is the previous stage's product)
      os.makedirs(work, exist_ok=True)
      with open(os.path.join(work, 'db.sqlite.lzma'), 'wb') as f:
        f.write(comp)
      try:
        with seams.patched(downloads, open=FileSeam(inj), os=OsSeam(inj, work), shutil=ShutilSeam(inj, work),
                           lzma=LzmaSeam(inj), log=lambda *a, **k: None):
          p = downloads.maybe_lzma_decompress(os.path.join(work, 'db.sqlite.lzma'))
        res = ('ok', p, [e for e in inj.trace if e['kind'] in ('write', 'lzma')])
      except Crash:
        res = ('crash',)
      except (InjectedIOError, KeyboardInterrupt):
        res = ('ioerror',)
      return res, inj.trace

    def reuse(state, result, how):
      files = dict(state)
      if 'db.sqlite' in files and files['db.sqlite'] == data:
        require(not result[2], 'a complete decompressed file was not reused', case=dict(case, faults=how))
    if not hasattr(downloads, 'open'):
      downloads.open = open
    if not hasattr(downloads, 'shutil'):
      downloads.shutil = shutil
    st = _explore(work, run, ['db.sqlite'], {'db.sqlite': data}, 'maybe_lzma_decompress', case, reuse)
    fault.restore(work, ())
    _, trace = run(None)
    kinds = {e['kind'] for e in trace}
    if not {'os', 'open', 'lzma'} <= kinds:
      case = dict(case, _cap='decompress seam incomplete (effect kinds seen: %s): faults on the missing kinds were not injected' % sorted(kinds))
  finally:
    shutil.rmtree(base, ignore_errors=True)
  return _info(st, case, trace)


def decompress_truncated(case):
  """The compressed input itself ends early (short read at any position of the stream: a premature end of file is the
  I/O fault here): the call must fail, the final path must not appear; after the input is complete again a call repairs
  the cache, and the next one reuses it."""
  from fedjax.datasets import downloads
  n = case['size']
  data = payload(n, 3, case.get('kind', 'noise'))
  fmt = {'xz': real_lzma.FORMAT_XZ, 'alone': real_lzma.FORMAT_ALONE}[case['format']]
  comp = real_lzma.compress(data, format=fmt)
  cuts = sorted({0, 1, 5, 12, 13, len(comp) // 3, len(comp) // 2, len(comp) - 13, len(comp) - 5, len(comp) - 2, len(comp) - 1}
                & set(range(len(comp))))
  if case.get('damage') == 'flip':
    # the compressed file has its full length but one damaged byte (header / body / integrity check at the end)
    cuts = sorted({1, 6, len(comp) // 4, len(comp) // 2, 3 * len(comp) // 4, len(comp) - 6, len(comp) - 2} & set(range(len(comp))))
  damaged = (lambda cut: comp[:cut]) if case.get('damage') != 'flip' else (lambda cut: comp[:cut] + bytes([comp[cut] ^ 0x5A]) + comp[cut + 1:])
  base = tempfile.mkdtemp(prefix='c19t_')
  work = os.path.join(base, 'cache')
  evals = 0
  try:
    for cut in cuts:
      nc = dict(case, cut=cut)
      shutil.rmtree(work, ignore_errors=True)
      os.makedirs(work)
      src = os.path.join(work, 'db.sqlite.lzma')
      final = os.path.join(work, 'db.sqlite')
      for attempt in range(2):
        with open(src, 'wb') as f:
          f.write(damaged(cut))
        try:
          with seams.patched(downloads, log=lambda *a, **k: None):
            downloads.maybe_lzma_decompress(src)
          failed = False
        except Exception:  # pylint: disable=broad-except
          failed = True
        if os.path.exists(final):
          with open(final, 'rb') as f:
            got = f.read()
          require(got == data, 'a compressed input damaged at byte %d of %d left a %d-byte file with wrong content under the final '
                  'name (complete content: %d bytes)' % (cut, len(comp), len(got), len(data)), len(data), len(got), case=nc)
        else:
          require(failed, 'decompressing a truncated input neither failed nor produced the file', case=nc)
      with open(src, 'wb') as f:
        f.write(comp)
      with seams.patched(downloads, log=lambda *a, **k: None):
        p = downloads.maybe_lzma_decompress(src)
      with open(p, 'rb') as f:
        require(f.read() == data and os.path.basename(p) == 'db.sqlite', 'after the input was completed the cache was not '
                'repaired', case=nc)
      mt = os.stat(p).st_mtime_ns
      with seams.patched(downloads, log=lambda *a, **k: None):
        downloads.maybe_lzma_decompress(src)
      require(os.stat(p).st_mtime_ns == mt, 'a complete decompressed file was rewritten instead of reused', case=nc)
      evals += 1
  finally:
    shutil.rmtree(base, ignore_errors=True)
  return {'evals': evals, 'nontrivial': n > 0, 'outcome': [n, case['format'], len(cuts)],
          'keys': [['trunc', n, case['format'], c] for c in cuts]}


def _info(st, case, trace):
  info = {'evals': st['runs'], 'nontrivial': case['size'] > 0, 'outcome': [case['size'], st['states']],
          'keys': [[case.get('what', ''), case['size'], i] for i in range(st['states'])],
          'stats': {'reachable_states': st['states'], 'faults_injected': st['faults'], 'runs': st['runs'],
                    'max_successive_faults': st['max_crash_depth']},
          'sample': {'size': case['size'], 'effects': [e['kind'] + ':' + e['name'] for e in trace][:30]}}
  if st['cap']:
    info['cap'] = st['cap']
  if case.get('_cap'):
    info['cap'] = case['_cap']
  return info


# ---- CIFAR-100 conversion step ---------------------------------------------------------------------

def _make_tff_db(path, n_clients=3):
  """A tiny database in TFF's "one example per record" layout."""
  import sqlite3
  import tensorflow as tf
  if os.path.exists(path):
    os.remove(path)
  con = sqlite3.connect(path)
  con.execute('CREATE TABLE examples (split_name TEXT NOT NULL, client_id TEXT NOT NULL, '
              'serialized_example_proto BLOB NOT NULL);')
  con.execute('CREATE TABLE client_metadata (client_id TEXT NOT NULL, split_name TEXT NOT NULL, '
              'num_examples INTEGER NOT NULL);')
  for split in ('train', 'test'):
    for c in range(n_clients):
      for e in range(2):
        img = ((np.arange(32 * 32 * 3) + c * 7 + e) % 256).astype(np.int64)
        ex = tf.train.Example(features=tf.train.Features(feature={
            'coarse_label': tf.train.Feature(int64_list=tf.train.Int64List(value=[c % 20])),
            'label': tf.train.Feature(int64_list=tf.train.Int64List(value=[c * 3 + e])),
            'image': tf.train.Feature(int64_list=tf.train.Int64List(value=img.tolist())),
        }))
        con.execute('INSERT INTO examples VALUES (?, ?, ?);', (split, str(c), ex.SerializeToString()))
      con.execute('INSERT INTO client_metadata VALUES (?, ?, ?);', (str(c), split, 2))
  con.commit()
  con.close()


def cifar_convert(case):
  """load_split's conversion stage: a fault while clients are being converted must not leave a partial
  database under the final name."""
  from fedjax.datasets import cifar100, downloads
  base = tempfile.mkdtemp(prefix='c19c_')
  work = os.path.join(base, 'cache')
  split = case['split']
  try:
    src = os.path.join(base, 'src.sqlite')
    _make_tff_db(src)
    with open(src, 'rb') as f:
      raw = f.read()
    comp = real_lzma.compress(raw)
    # reference product: convert once without faults to learn the expected size/hash
    os.makedirs(work)
    final = 'federated_cifar100_%s.sqlite' % split
    learned = []

    def run(flt):
      inj = CInjector(flt)
      os.makedirs(work, exist_ok=True)
      with open(os.path.join(work, 'cifar100.sqlite.lzma'), 'wb') as f:
        f.write(comp)
      with open(os.path.join(work, 'cifar100.sqlite'), 'wb') as f:
        f.write(raw)
      parse = cifar100._parse_tf_examples

      def parse_seam(vs):
        inj.effect('convert', 'client')
        return parse(vs)
      consts = dict(_TFF_SQLITE_COMPRESSED_NUM_BYTES=len(comp),
                    _TFF_SQLITE_COMPRESSED_HEXDIGEST=hashlib.sha256(comp).hexdigest(),
                    _parse_tf_examples=parse_seam)
      dl_patch = {'log': lambda *a, **k: None}
      if case.get('expect'):
        consts['_FEDJAX_SQLITE_NUM_BYTES'] = {split: case['expect'][0]}
        consts['_FEDJAX_SQLITE_HEXDIGEST'] = {split: case['expect'][1]}
      else:
        # learning run: record what the conversion produced instead of validating it against the real dataset's constants
        real_validate = downloads.validate_file

        def recording_validate(path, n, h):
          if str(path).endswith('.lzma'):
            return real_validate(path, n, h)
          with open(path, 'rb') as f:
            learned.append(f.read())
        dl_patch['validate_file'] = recording_validate
      try:
        with seams.patched(cifar100, **consts), seams.patched(downloads, **dl_patch):
          try:
            fd = cifar100.load_split(split, cache_dir=work)
            ids = sorted(fd.client_ids())
            fd._connection.close()
            res = ('ok', ids)
          except ValueError as e:
            if case.get('expect'):
              raise
            res = ('ok-unvalidated', str(e)[:80])
      except Crash:
        res = ('crash',)
      except (InjectedIOError, KeyboardInterrupt):
        res = ('ioerror',)
      return res, inj.trace
    if 'expect' not in case:
      # learn the size/hash of the complete product (validation constants of the real dataset do not apply)
      run(None)
      if not learned:
        raise HarnessError('C19 cifar: the conversion never asked to validate its product')
      good = learned[-1]
      case = dict(case, expect=[len(good), hashlib.sha256(good).hexdigest()])
      shutil.rmtree(work)
      os.makedirs(work)
    run(None)
    with open(os.path.join(work, final), 'rb') as f:
      good = f.read()
    import sqlite3

    def rows(data):
      p = os.path.join(base, 'probe.sqlite')
      with open(p, 'wb') as f:
        f.write(data)
      con = sqlite3.connect(p)
      try:
        return sorted(r[0] for r in con.execute('SELECT client_id FROM federated_data'))
      finally:
        con.close()
    want_rows = rows(good)

    def check_state(state, how):
      files = dict(state)
      if final in files:
        try:
          got = rows(files[final])
        except Exception as e:  # pylint: disable=broad-except
          got = 'unreadable: %s' % e
        require(got == want_rows, 'CIFAR-100 conversion: %s exists but holds %s instead of all %d clients'
                % (final, got, len(want_rows)), want_rows, got, case=dict(case, faults=how))

    def check_clean(state, result, end, how):
      require(result[0] == 'ok' and result[1] == want_rows, 'CIFAR-100 load_split after the faults did not return the '
              'complete dataset: %r' % (result,), want_rows, result, case=dict(case, faults=how))

    def faults_for(trace, depth):
      out = []
      for e in trace:
        if e['kind'] == 'convert':
          out += [('crash', e['i']), ('error', e['i'])]
      return out

    def canon_c(state):
      return tuple((n, len(d)) if n != final else (n, hashlib.sha1(d).hexdigest()) for n, d in state
                   if not n.endswith('-journal'))
    st = fault.explore(work, [()], run, faults_for, check_clean, check_state, canon=canon_c, max_states=200)
    _, trace = run(None)
  finally:
    shutil.rmtree(base, ignore_errors=True)
  return _info(st, dict(case, size=len(raw), what='cifar'), trace)


SUBS = {'download': download, 'decompress': decompress, 'decompress_truncated': decompress_truncated, 'cifar_convert': cifar_convert}
TIMEOUTS = {k: 1500 for k in SUBS}


def plan(ctx):
  th = ctx.tier == 'thorough'
  ctx.rule = ('download: payload sizes {0,1,block-1,block,block+1,3*block} (block=2^18) of noise, plus all-zero / zero-tailed / zero-holed payloads; decompression: {0,1,65535,65536,'
              '200000} bytes (copy buffer 64 KiB); faults = crash and I/O error before every effect + torn writes with '
              'prefixes {0,1,n/2,n-1} of every block; BFS over cache-directory states to a fixpoint; CIFAR-100 conversion: '
              'fault at every converted client; distinct = reachable directory states; non-trivial = payload > 0')
  ctx.assumptions += ['fake transport serves the payload block by block; short reads that are not errors are not modelled',
                      'crash = process death with prefix-persisting open files; I/O error = exception unwinding with-blocks',
                      'CIFAR-100 conversion runs on a synthetic 3-client TFF-format database with the size/hash constants '
                      'patched to that database']
  dl = [0, 1, BLOCK - 1, BLOCK, BLOCK + 1, 3 * BLOCK] + ([2 * BLOCK, 5 * BLOCK + 7] if th else [])
  dc = [0, 1, COPY - 1, COPY, 200000] + ([COPY + 1, 3 * COPY, 500000] if th else [])
  kinds = [(n, k) for k in ('zeros', 'zero_tail', 'zero_hole') for n in ((1, 200000, 3 * BLOCK) if th else (200000,))]
  ctx.pmap('download', [{'size': n, 'what': 'download'} for n in dl] +
           [{'size': n, 'what': 'download', 'kind': k} for n, k in kinds], chunk=1)
  ctx.pmap('decompress', [{'size': n, 'what': 'decompress'} for n in dc] +
           [{'size': n, 'what': 'decompress', 'kind': k} for n, k in kinds], chunk=1)
  ctx.pmap('decompress_truncated', [{'size': n, 'format': f, 'kind': k} for n in ((0, 1, 1000, 200000, 5 * COPY) if th else (0, 1000, 200000))
                                    for f in ('xz', 'alone') for k in (('noise', 'zero_tail') if n > 1000 else ('noise',))] +
           [{'size': n, 'format': f, 'damage': 'flip'} for n in (1000, 200000) for f in ('xz', 'alone')], chunk=2)
  ctx.pmap('cifar_convert', [{'split': s} for s in ('train', 'test')], chunk=1)

import os
os.environ['XLA_FLAGS']='--xla_force_host_platform_device_count=8'
import itertools, numpy as np, jax, jax.numpy as jnp, time
from jax.sharding import Mesh, NamedSharding, PartitionSpec as P
import fedjax
from fedjax.core import for_each_client as fec
def init(s, ci): return {'acc': s['w'] * ci['scale'], 'n': jnp.zeros((), jnp.int32), 'key': ci['key']}
def step(st, b):
    k, u = jax.random.split(st['key'])
    m = jnp.mean(b['x'])
    return {'acc': st['acc'] / m + jax.random.uniform(u, ()), 'n': st['n'] + 1, 'key': k}, {'log': jnp.log(jnp.sum(b['x'])), 'inv': 1.0 / m}
def final(s, st): return {'out': st['acc'] - s['w'], 'n': st['n']}
def ref(shared, batches, ci):
    with jax.disable_jit():
        st = init(shared, ci); rs=[]
        for b in batches:
            st, r = step(st, b); rs.append(r)
        return final(shared, st), rs
shared={'w': jnp.array([1.0, 2.0])}
devs=jax.local_devices()
bad=0;n=0;t0=time.time()
def batches(k, cid): return [{'x': jnp.array([1.0+cid, 2.0+j])} for j in range(k)]
for ncl in range(0,4):
  for prof in itertools.product(range(3), repeat=ncl):
    clients=[(i, batches(k,i), {'scale': jnp.array(1.0+i), 'key': jax.random.PRNGKey(i)}) for i,k in enumerate(prof)]
    exp={cid: ref(shared, bs, ci) for cid,bs,ci in clients}
    for be in ['jit','debug']+[fec.ForEachClientPmapBackend(devs[:d]) for d in (1,2,3)]:
        with fec.for_each_client_backend(be):
            f=fedjax.for_each_client(init, step, final, with_step_result=True)
        got=list(f(shared, clients)); n+=1
        ok = sorted(c for c,_,_ in got)==sorted(exp)
        for cid,out,rs in got:
            eo,er=exp[cid]
            ok &= len(rs)==len(er)
            for a,b in zip(jax.tree_util.tree_leaves((out,rs)), jax.tree_util.tree_leaves((eo,er))):
                ok &= bool(np.allclose(np.asarray(a),np.asarray(b),rtol=1e-5,atol=1e-6, equal_nan=False))
        if not ok: bad+=1; print('MISMATCH', prof, be)
print('cases',n,'bad',bad,'time',time.time()-t0)

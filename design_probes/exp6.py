import itertools, types, numpy as np, jax, jax.numpy as jnp
import fedjax
from fedjax.core import client_datasets as cds
from fedjax.aggregators import compression

# --- seam 1: scripted RandomState for shuffle_repeat_batch
class ScriptedRS:
    def __init__(self, script): self.script = list(script); self.calls = []
    def shuffle(self, buf):
        perm = self.script.pop(0); self.calls.append(('shuffle', len(buf)))
        buf[:] = buf[list(perm)]
    def randint(self, n):
        v = self.script.pop(0); self.calls.append(('randint', n)); assert 0 <= v < n; return v
class NpProxy:
    def __init__(self, real, rs_factory):
        self._real = real; self.random = types.SimpleNamespace(RandomState=rs_factory)
    def __getattr__(self, k): return getattr(self._real, k)
N=3
ds = cds.ClientDataset({'x': np.arange(N)})
outs=set()
for p1 in itertools.permutations(range(N)):
    for p2 in itertools.permutations(range(N)):
        rs = ScriptedRS([p1,p2])
        cds.np = NpProxy(np, lambda seed: rs)
        try:
            stream = [int(v) for b in ds.shuffle_repeat_batch(batch_size=2, num_epochs=2) for v in b['x']]
        finally:
            cds.np = np
        assert sorted(stream[:3])==[0,1,2] and sorted(stream[3:6])==[0,1,2], stream
        outs.add(tuple(stream))
print('distinct streams', len(outs))

# --- seam 2: uniform decoded from key for quantizer expectation
K = 8
real_uniform = jax.random.uniform
def grid_uniform(key, shape=(), dtype=jnp.float32, minval=0., maxval=1.):
    kd = jax.random.key_data(key) if jnp.issubdtype(key.dtype, jax.dtypes.prng_key) else key
    idx = kd[-1]
    n = int(np.prod(shape)) if shape else 1
    digits = (idx // (K ** jnp.arange(n))) % K
    return ((digits + 0.5) / K).reshape(shape).astype(dtype)
jax.random.uniform = grid_uniform
v = jnp.array([0.0, 0.25, 1.0])   # thresholds multiples of 1/K for levels=2 -> 0, .25, 1
acc = np.zeros(3)
vals=set()
for idx in range(K**3):
    q = compression.uniform_stochastic_quantize(v, 2, jnp.array([0, idx], dtype=jnp.uint32))
    acc += np.asarray(q); vals.add(tuple(np.asarray(q).tolist()))
jax.random.uniform = real_uniform
print('mean', acc/K**3, 'support', sorted(vals))

import pickle, os, tempfile, shutil, types
import fedjax
from fedjax.core import serialization, util
from fedjax.training import checkpoint
tf = util.import_tf()
real = tf.io.gfile
class Crash(BaseException): pass
log = []
class GFileW:
    def __init__(self, path, mode='r'):
        self._f = real.GFile(path, mode); self._path=path; self._mode=mode; self._dead=False
        log.append(('open', os.path.basename(path), mode))
    def write(self, data):
        log.append(('write', os.path.basename(self._path), len(data)))
        return self._f.write(data)
    def read(self, *a): return self._f.read(*a)
    def readline(self, *a): return self._f.readline(*a)
    def __enter__(self): return self
    def __exit__(self, *a):
        log.append(('close', os.path.basename(self._path))); self._f.close()
    def __getattr__(self, k): return getattr(self._f, k)
class GfileProxy:
    GFile = GFileW
    def __getattr__(self, k):
        fn = getattr(real, k)
        def w(*a, **kw):
            log.append((k,) + tuple(os.path.basename(str(x)) for x in a)); return fn(*a, **kw)
        return w
fake_tf = types.SimpleNamespace(io=types.SimpleNamespace(gfile=GfileProxy()))
serialization.tf = fake_tf; checkpoint.tf = fake_tf
d = tempfile.mkdtemp()
import jax.numpy as jnp
st = {'w': jnp.arange(3.), 'n': 2}
for r in (1,2,3):
    checkpoint.save_checkpoint(d, st, r, keep=2)
print(checkpoint.load_latest_checkpoint(d))
for l in log: print(l)
print(sorted(os.listdir(d)))
shutil.rmtree(d)

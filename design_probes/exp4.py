import numpy as np, jax, jax.numpy as jnp, traceback, tempfile, os, time, shutil
import fedjax
from fedjax.training import federated_experiment as fe, checkpoint
from fedjax.core import federated_algorithm, client_samplers, in_memory_federated_data as im

def t(name, f):
    try:
        print(name, '->', f())
    except Exception as e:
        traceback.print_exc()
        print(name, 'EXC', type(e).__name__, str(e)[:300])

fd = im.InMemoryFederatedData({bytes([65+i]): {'x': np.arange(i+1)} for i in range(4)})
def alg():
    def init(): return {'h': 0, 'n': 0}
    def apply(state, clients):
        h = state['h']
        for cid, ds, key in clients:
            h = (h*31 + cid[0] + len(ds) + int(np.asarray(jax.random.key_data(key) if hasattr(key,'dtype') and jnp.issubdtype(key.dtype, jax.dtypes.prng_key) else key)[-1])) % 1000003
        return {'h': h, 'n': state['n']+1}, {}
    return federated_algorithm.FederatedAlgorithm(init, apply)
class Ev(fe.EvaluationFn):
    def __call__(self, state, round_num):
        return {'h': state['h'], 'round': round_num}
a = alg()
d = tempfile.mkdtemp()
cfg = fe.FederatedExperimentConfig(root_dir=d, num_rounds=4, checkpoint_frequency=2, num_checkpoints_to_keep=1, eval_frequency=0)
t0=time.time()
s = fe.run_federated_experiment(a, a.init(), client_samplers.UniformGetClientSampler(fd, 2, 0), cfg, final_eval_fn_map={'final': Ev()})
print('run1', s, time.time()-t0, sorted(os.listdir(d)), open(os.path.join(d,'final.tsv')).read())
t0=time.time()
t('rerun after finish', lambda: fe.run_federated_experiment(a, a.init(), client_samplers.UniformGetClientSampler(fd, 2, 0), cfg, final_eval_fn_map={'final': Ev()}))
print(time.time()-t0)
# truncated checkpoint
p = os.path.join(d, 'checkpoint_00000004')
data = open(p,'rb').read(); print('ckpt bytes', len(data))
open(p,'wb').write(data[:len(data)//2])
t('load truncated', lambda: checkpoint.load_latest_checkpoint(d))
shutil.rmtree(d)

"""C13 - client sampling is a pure function of (seed, round number).

E-graph: every operation sequence (sample / set_round_num(r)) up to a depth bound is executed on a
fresh real sampler; every sample() must equal the table entry T[round] obtained from a fresh sampler
seated at that round. Streaming sampler: restarts at round r reproduce rounds r, r+1, ...
"""
import itertools
import os
import shutil
import tempfile

import numpy as np

from mc import core
from mc.core import require, Violation

PROPERTY = 'C13'
LEVEL = 'model_checking'

DATASETS = {
    'zeros5': [b'a', b'a\x00', b'ab', b'b', b'b\x00\x00'],
    'plain3': [b'k1', b'k2', b'k3'],
    # str ids (in-memory datasets accept them): a trailing NUL character is part of the id, 'a' and 'a\x00' are two clients
    'strzeros5': ['a', 'a\x00', 'ab', 'b', 'b\x00\x00'],
    'many60': [b'm%03d' % i + (b'\x00' if i % 7 == 0 else b'') for i in range(60)],
    # a population large enough for "large population / small cohort" code paths (N > 10000, cohort <= N // 50)
    'big12000': [b'g%05d' % i + (b'\x00' if i % 97 == 0 else b'') for i in range(12000)],
}
MAX_ROUND = 5


def build_fd(name, impl, tmp):
  import fedjax
  from fedjax.core import sqlite_federated_data as sq
  ids = DATASETS[name]
  table = {}
  off = 0
  for k, cid in enumerate(ids):
    n = (k * 2 + 1) % 4
    table[cid] = {'x': np.arange(off, off + n, dtype=np.int32)}
    off += n
  if isinstance(ids[0], str):
    assert impl in ('mem', 'sub_dup'), impl
    obs_table = {cid.encode(): v for cid, v in table.items()}   # observe() reports str ids as their UTF-8 bytes
  else:
    obs_table = table
  if impl == 'mem':
    return fedjax.InMemoryFederatedData(table), obs_table
  if impl == 'sub_dup':
    # the population given as a subset whose id list names some clients twice (two overlapping groups concatenated)
    from fedjax.core import federated_data as fdm
    zz = 'zz%d' if isinstance(ids[0], str) else b'zz%d'
    extra = {zz % k: {'x': np.arange(1, dtype=np.int32)} for k in range(2)}
    return fdm.SubsetFederatedData(fedjax.InMemoryFederatedData({**table, **extra}), list(ids) + list(ids[:2]) + [ids[-1]]), obs_table
  path = os.path.join(tmp, name + '.sqlite')
  if not os.path.exists(path):
    with sq.SQLiteFederatedDataBuilder(path) as b:
      b.add_many([(cid, table[cid]) for cid in reversed(ids)])
  return sq.SQLiteFederatedData.new(path), table


def observe(sample):
  out = []
  for cid, ds, key in sample:
    import jax
    kd = np.asarray(jax.random.key_data(key) if hasattr(key, 'dtype') and 'key' in str(key.dtype) else key)
    out.append((cid.encode() if isinstance(cid, str) else bytes(cid), np.asarray(ds.all_examples()['x']).tolist(), kd.tolist()))
  return out


def check_round(obs, table, k, what, nc):
  ids = [o[0] for o in obs]
  require(len(obs) == k, what + ': cohort size', k, len(obs), case=nc)
  require(len(set(ids)) == len(ids), what + ': a client is repeated within the round', None, [i.hex() for i in ids],
          case=nc)
  for cid, xs, _ in obs:
    require(cid in table, what + ': returned id %r is not an id of the dataset (exact bytes)' % cid, case=nc)
    require(xs == table[cid]['x'].tolist(), what + ': dataset returned for %r is not that client\'s' % cid, case=nc)
  keys = [tuple(o[2]) for o in obs]
  require(len(set(keys)) == len(keys), what + ': per-client keys are not pairwise distinct', case=nc)


def histories(case):
  """One configuration; all op sequences of length <= depth."""
  import fedjax
  name, impl, seed, k, depth = case['dataset'], case['impl'], case['seed'], case['k'], case['depth']
  tmp = tempfile.mkdtemp(prefix='c13_')
  try:
    fd, table = build_fd(name, impl, tmp)
    # table of fresh-sampler answers
    T = {}
    for r in range(0, MAX_ROUND + depth + 1):
      s = fedjax.client_samplers.UniformGetClientSampler(fd, k, seed, start_round_num=r)
      T[r] = observe(s.sample())
      check_round(T[r], table, k, 'fresh sampler at round %d' % r, dict(case, ops=[['fresh', r]]))
    allkeys = [tuple(o[2]) for r in T for o in T[r]]
    require(len(set(allkeys)) == len(allkeys), 'per-client keys repeat across rounds', case=case)
    if len(table) > k + 1 or k < len(table):
      require(len({tuple(o[0] for o in T[r]) for r in T}) > 1, 'every round samples the same cohort in the same order',
              case=case)
    ops = [('sample',)] + [('set', r) for r in range(0, MAX_ROUND + 1)]
    seqs = [tuple(tuple(o) for o in case['ops'])] if 'ops' in case else itertools.chain.from_iterable(
        itertools.product(ops, repeat=d) for d in range(1, depth + 1))
    evals = trans = 0
    states = set()
    # a sample() that fails while the cohort is being loaded (transient I/O error) must not advance the round
    if 'ops' not in case:
      class Flaky:
        def __init__(self, base, fail_at):
          self._b, self._n, self._at = base, 0, fail_at

        def get_clients(self, ids):
          for j, item in enumerate(self._b.get_clients(ids)):
            self._n += 1
            if self._n == self._at:
              raise IOError('transient failure while loading a client')
            yield item

        def __getattr__(self, name):
          return getattr(self._b, name)
      for fail_at in range(1, 2 * k + 1):
        s = fedjax.client_samplers.UniformGetClientSampler(Flaky(fd, fail_at), k, seed)
        got, rnd, failed = [], 0, 0
        while len(got) < 3:
          try:
            got.append(observe(s.sample()))
          except IOError:
            failed += 1
        require(failed == 1 and got == [T[0], T[1], T[2]], 'after a sample() that failed while loading its cohort, the retried '
                'and following samples are not those of rounds 0, 1, 2', None, None, case=dict(case, fail_at=fail_at))
        trans += 4
    for seq in seqs:
      if not any(o[0] == 'sample' for o in seq):
        continue
      if 'ops' not in case and seq[-1][0] != 'sample':
        continue  # a trailing set_round_num is observed by the longer sequences
      nc = dict(case, ops=[list(o) for o in seq])
      s = fedjax.client_samplers.UniformGetClientSampler(fd, k, seed)
      rnd = 0
      kept = []
      for o in seq:
        if o[0] == 'set':
          s.set_round_num(o[1])
          rnd = o[1]
        else:
          cohort = s.sample()
          kept.append((rnd, cohort))
          got = observe(cohort)
          require(got == T[rnd], 'sample() at round %d after history %s differs from a fresh sampler seated at that '
                  'round' % (rnd, [list(x) for x in seq]), T[rnd], got, case=nc)
          rnd += 1
        trans += 1
        states.add(rnd)
      # cohorts handed out earlier stay what they were: looked at again after the later operations of the history
      for r0, cohort in kept[:-1]:
        again = observe(cohort)
        require(again == T[r0], 'the cohort returned for round %d changed after later operations on the sampler (history %s)'
                % (r0, [list(x) for x in seq]), T[r0], again, case=nc)
      evals += 1
    if impl == 'sql':
      fd._connection.close()
  finally:
    shutil.rmtree(tmp, ignore_errors=True)
  return {'evals': evals, 'states': len(states), 'transitions': trans, 'traces': evals,
          'nontrivial': True, 'outcome': [[o[0].hex() for o in T[r]] for r in sorted(T)][:4],
          'sample': {'round0': [o[0].hex() for o in T[0]], 'round1': [o[0].hex() for o in T[1]]}}


def streaming(case):
  import fedjax
  name, impl, k = case['dataset'], case['impl'], case['k']
  tmp = tempfile.mkdtemp(prefix='c13s_')
  try:
    fd, table = build_fd(name, impl, tmp)
    evals = trans = 0
    for buf, sseed in itertools.product(case['buffers'], case['stream_seeds']):
      nc = dict(case, buffers=[buf], stream_seeds=[sseed])
      base = fedjax.client_samplers.UniformShuffledClientSampler(fd.shuffled_clients(buf, sseed), k)
      rounds = [observe(base.sample()) for _ in range(case['max_start'] + 3)]
      n = len(table)
      for r, obs in enumerate(rounds):
        keys = [tuple(o[2]) for o in obs]
        require(len(set(keys)) == len(keys), 'streaming round %d: keys not distinct' % r, case=nc)
        for cid, xs, _ in obs:
          require(cid in table and xs == table[cid]['x'].tolist(), 'streaming: wrong dataset for id', case=nc)
      flat = [o[0] for obs in rounds for o in obs]
      for p in range(len(flat) // n):
        require(sorted(flat[p * n:(p + 1) * n]) == sorted(table), 'streaming: pass %d of the client stream is not a '
                'permutation' % p, case=nc)
      allkeys = [tuple(o[2]) for obs in rounds for o in obs]
      require(len(set(allkeys)) == len(allkeys), 'streaming: keys repeat across rounds', case=nc)
      # the same stream while the dataset object serves other requests between the rounds (a periodic evaluation, a
      # second sampler) and while a second streaming sampler over the same dataset is alive
      dist = fedjax.client_samplers.UniformShuffledClientSampler(fd.shuffled_clients(buf, sseed), k)
      other = fedjax.client_samplers.UniformShuffledClientSampler(fd.shuffled_clients(buf, sseed), k, start_round_num=2)
      getter = fedjax.client_samplers.UniformGetClientSampler(fd, min(k, n), 0)
      kept = []
      for r in range(len(rounds) - 2):
        cohort = dist.sample()
        kept.append(cohort)
        require(observe(cohort) == rounds[r], 'streaming round %d differs when the dataset object is used between the rounds'
                % r, rounds[r], observe(cohort), case=nc)
        fd.num_clients()
        ids_now = list(fd.client_ids())
        fd.get_client(ids_now[r % n])
        fd.client_size(ids_now[-1])
        getter.sample()
        next(iter(fd.clients()))
        got_o = observe(other.sample())
        require(got_o == rounds[r + 2], 'a second streaming sampler (started at round 2) alive next to the first one differs '
                'at its sample %d' % r, rounds[r + 2], got_o, case=nc)
        trans += 2
      for r, cohort in enumerate(kept):
        require(observe(cohort) == rounds[r], 'the streaming cohort returned for round %d changed after later samples' % r,
                rounds[r], observe(cohort), case=nc)
      for r in range(0, case['max_start'] + 1):
        s = fedjax.client_samplers.UniformShuffledClientSampler(fd.shuffled_clients(buf, sseed), k, start_round_num=r)
        for j in range(3):
          got = observe(s.sample())
          require(got == rounds[r + j], 'streaming sampler started at round %d: its sample %d differs from round %d of '
                  'the sampler started at 0' % (r, j, r + j), rounds[r + j], got, case=dict(nc, start=r))
          trans += 1
        evals += 1
    if impl == 'sql':
      fd._connection.close()
  finally:
    shutil.rmtree(tmp, ignore_errors=True)
  return {'evals': evals, 'states': case['max_start'] + 3, 'transitions': trans, 'traces': evals, 'nontrivial': True,
          'outcome': [name, impl, k]}


def random_states(case):
  """client_samplers.get_pseudo_random_state(seed, round): the generators for several (seed, round) pairs are requested
  first and used afterwards, in every order of use - each must give the draws of a generator requested and used alone."""
  from fedjax.core import client_samplers as cs
  pairs = [tuple(p) for p in case['pairs']]
  alone = {p: cs.get_pseudo_random_state(*p).randint(0, 2 ** 31 - 1, size=4).tolist() for p in pairs}
  require(len({tuple(v) for v in alone.values()}) == len(pairs), 'different (seed, round) pairs give the same generator', case=case)
  evals = 0
  for order in itertools.permutations(range(len(pairs))):
    gens = [cs.get_pseudo_random_state(*p) for p in pairs]        # all requested before any is used
    for i in order:
      got = gens[i].randint(0, 2 ** 31 - 1, size=4).tolist()
      require(got == alone[pairs[i]], 'the generator for (seed, round) %r, requested together with those of %r and used in order '
              '%r, does not give its own draws' % (pairs[i], [p for p in pairs if p != pairs[i]], list(order)), alone[pairs[i]], got,
              case=dict(case, order=list(order)))
    evals += 1
  return {'evals': evals, 'states': evals, 'transitions': evals * len(pairs), 'traces': evals, 'nontrivial': True,
          'outcome': [list(p) for p in pairs]}


def threads(case):
  """Two samplers (a training and an evaluation sampler: other dataset, other seed) used from two threads; every schedule
  of the source lines of client_samplers.py with at most `bound` preemptions; each cohort must be the one of its own
  (seed, round)."""
  import fedjax
  from mc import sched
  tmp = tempfile.mkdtemp(prefix='c13t_')
  try:
    fd1, _ = build_fd('zeros5', 'mem', tmp)
    fd2, _ = build_fd('plain3', 'mem', tmp)
    want1 = [[o[0] for o in observe(fedjax.client_samplers.UniformGetClientSampler(fd1, 2, 3, start_round_num=r).sample())] for r in range(2)]
    want2 = [[o[0] for o in observe(fedjax.client_samplers.UniformGetClientSampler(fd2, 2, 11, start_round_num=r).sample())] for r in range(2)]
    outcomes = set()

    def make_bodies():
      s1 = fedjax.client_samplers.UniformGetClientSampler(fd1, 2, 3)
      s2 = fedjax.client_samplers.UniformGetClientSampler(fd2, 2, 11)

      def body(s):
        def run(point):
          out = []
          for _ in range(case['samples']):
            point()
            out.append([bytes(c) for c, _, _ in s.sample()])
          return out
        return run
      return [body(s1), body(s2)]

    def check(ex):
      got1, got2 = ex.results.get(0), ex.results.get(1)
      nc = dict(case, schedule=ex.choices)
      require(got1 == want1[:case['samples']], 'sampler 1 returned cohorts that are not those of its (seed, round) while another '
              'sampler ran in a second thread (schedule %r)' % (ex.choices,), want1, got1, case=nc)
      require(got2 == want2[:case['samples']], 'sampler 2 returned cohorts that are not those of its (seed, round) while another '
              'sampler ran in a second thread (schedule %r)' % (ex.choices,), want2, got2, case=nc)
      outcomes.add(core.digest([got1, got2]))
    files = ('fedjax/core/client_samplers.py',)
    if 'schedule' in case:
      check(sched.Scheduler(make_bodies(), files, case['schedule']).run())
      return {'evals': 1}
    st = sched.explore(make_bodies, check, bound=case['bound'], trace_files=files, time_budget_s=case.get('time_budget_s', 120))
  finally:
    shutil.rmtree(tmp, ignore_errors=True)
  info = {'evals': st['executions'], 'states': st['executions'], 'transitions': st['executions'] * max(1, st['max_points']),
          'traces': st['executions'], 'outcomes': sorted(outcomes), 'nontrivial': True, 'stats': {'schedules': st['executions']}}
  if st['capped']:
    info['cap'] = 'time budget reached at preemption bound %d after %d schedules' % (case['bound'], st['executions'])
  return info


def sample_table(arg):
  """Fresh-sampler answers for rounds 0..MAX_ROUND and the first streaming rounds (parent and child interpreters)."""
  import fedjax
  tmp = tempfile.mkdtemp(prefix='c13o_')
  out = {}
  try:
    for impl in arg['impls']:
      fd, _ = build_fd(arg['dataset'], impl.split('+')[0], tmp)
      if impl.endswith('+slice'):
        fd = fd.slice(start=DATASETS[arg['dataset']][1])   # a derived view as the population
      for k in arg['ks']:
        if k > fd.num_clients():
          continue
        T = []
        for r in range(0, MAX_ROUND + 1):
          s = fedjax.client_samplers.UniformGetClientSampler(fd, k, arg['seed'], start_round_num=r)
          T.append([[o[0].hex(), o[1], o[2]] for o in observe(s.sample())])
        st = fedjax.client_samplers.UniformShuffledClientSampler(fd.shuffled_clients(2, arg['seed']), k)
        S = [[[o[0].hex(), o[1], o[2]] for o in observe(st.sample())] for _ in range(4)]
        out['%s/%d' % (impl, k)] = {'get': T, 'stream': S}
      if impl.startswith('sql'):
        fd._connection.close()
  finally:
    shutil.rmtree(tmp, ignore_errors=True)
  return out


def other_process(case):
  """(seed, round) -> cohort is the same function in another interpreter process (a restart IS another process; its
  str/bytes hash salt differs). Every listed PYTHONHASHSEED runs."""
  from mc import child
  arg = {'dataset': case['dataset'], 'impls': case['impls'], 'ks': case['ks'], 'seed': case['seed']}
  here = sample_table(arg)
  evals = 0
  for hs in case['hashseeds']:
    there = child.call('mc.checks.c13_client_sampling', 'sample_table', arg, hs)
    for key in here:
      for kind in ('get', 'stream'):
        require(here[key][kind] == there[key][kind], '%s sampler (%s): the cohorts of the same (seed, round) differ between '
                'two interpreter processes (PYTHONHASHSEED=%s)' % (kind, key, hs), here[key][kind][:2], there[key][kind][:2],
                case=dict(case, hashseeds=[hs]))
        evals += 1
  return {'evals': evals, 'states': evals, 'transitions': evals * (MAX_ROUND + 1), 'traces': evals, 'nontrivial': True,
          'outcome': [case['dataset'], case['seed']]}


SUBS = {'histories': histories, 'streaming': streaming, 'other_process': other_process, 'random_states': random_states,
        'threads': threads}
TIMEOUTS = {'histories': 900, 'streaming': 300, 'other_process': 1200, 'random_states': 300, 'threads': 900}


# sub-spaces re-executed under other interpreter configurations (mc.core.CONFIGS): {configuration: {sub-space: stride}}
# quick tier: every stride-th planned case, thorough tier: all planned cases
CONFIG_PASSES = {'x64': {'histories': 10}, 'rbg': {'histories': 10, 'streaming': 8}}


def plan(ctx):
  th = ctx.tier == 'thorough'
  depth = 5 if th else 4
  ctx.rule = ('every sequence of <= %d operations over {sample, set_round_num(0..5)} ending in a sample, per (dataset, '
              'implementation, seed, cohort size); states = round numbers reached; transitions = operations executed on '
              'the real sampler; every sample is compared with the fresh-sampler table' % depth)
  ctx.assumptions += ['the sampler has no environment input besides (seed, round); hidden state would surface as a '
                      'history-dependent answer, which is why whole histories (not merged states) are executed']
  hc = []
  for name, ids in DATASETS.items():
    if len(ids) > 1000:
      continue
    for impl in ('mem', 'sql', 'sub_dup'):
      if impl == 'sql' and isinstance(ids[0], str):
        continue   # the SQLite format stores bytes ids only
      for seed in (0, 1, 7):
        for k in (range(1, len(ids) + 1) if len(ids) < 10 else (1, 7, len(ids) - 1, len(ids))):
          d = depth if len(ids) < 10 else 2
          if th and not (seed == 0 or k in (1, len(ids))):
            d = 4
          if not th and impl in ('sql', 'sub_dup') and seed == 1:
            continue
          hc.append({'dataset': name, 'impl': impl, 'seed': seed + ctx.seed, 'k': k, 'depth': d})
  # one long run: 40 consecutive rounds, then a jump back and 5 more (every sample against a fresh sampler seated there)
  for name, impl in (('zeros5', 'mem'), ('zeros5', 'sql'), ('many60', 'mem')):
    hc.append({'dataset': name, 'impl': impl, 'seed': ctx.seed, 'k': 3, 'depth': 46,
               'ops': [['sample']] * 40 + [['set', 2]] + [['sample']] * 5})
  # more than 64 / 128 consecutive rounds on one sampler object, then jumps of exactly 64 / 128
  hc.append({'dataset': 'plain3', 'impl': 'mem', 'seed': ctx.seed, 'k': 2, 'depth': 270,
             'ops': [['sample']] * 135 + [['set', 3]] + [['sample']] + [['set', 67]] + [['sample']] + [['set', 131]] + [['sample']] * 2})
  # large population, small cohort: sequential rounds, a repeat, jumps backward and forward
  hc.append({'dataset': 'big12000', 'impl': 'mem', 'seed': ctx.seed, 'k': 200, 'depth': 12,
             'ops': [['sample']] * 4 + [['set', 1]] + [['sample']] * 2 + [['set', 0]] + [['sample']] + [['set', 5]] + [['sample']]})
  ctx.pmap('histories', hc, chunk=1)
  sc = [{'dataset': name, 'impl': impl, 'k': k, 'buffers': [1, 2, len(ids) + 1], 'stream_seeds': [0, 3],
         'max_start': 4}
        for name, ids in DATASETS.items() if len(ids) <= 1000 for impl in ('mem', 'sql')
        if not (impl == 'sql' and isinstance(ids[0], str))
        for k in (range(1, len(ids) + 1) if len(ids) < 10 else (7, len(ids)))]
  ctx.pmap('streaming', sc, chunk=2)
  ctx.run('random_states', [{'pairs': [[0, 0], [0, 1], [7, 1]]}, {'pairs': [[3, 2], [3, 5], [4, 2], [3, 0]]}])
  ctx.pmap('threads', [{'samples': 1, 'bound': 2 if th else 1}, {'samples': 2, 'bound': 1}], chunk=1)
  ctx.pmap('other_process', [{'dataset': name, 'impls': ['mem', 'mem+slice'] + ([] if isinstance(ids[0], str) else ['sql', 'sql+slice']), 'ks': [1, len(ids) - 1, len(ids)], 'seed': sd + ctx.seed,
                              'hashseeds': [hs]} for name, ids in DATASETS.items() if len(ids) < 10 for sd in (0, 7)
                             for hs in ((1, 2, 3, 12345) if th else (1, 2))], chunk=1)

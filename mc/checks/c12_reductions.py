"""C12 - degenerate hyper-parameters reduce every algorithm to FedAvg.

E-graph: for each reduction pair both real systems are stepped in lock-step along every cohort
history up to the depth bound and their server parameters are compared after EVERY round.
"""
import itertools

import numpy as np

from mc import algos, core, systems
from mc.core import require, Violation

PROPERTY = 'C12'
LEVEL = 'model_checking'

SIZES = [2, 3, 0, 5]
# ABA: a cohort sampled with replacement (client A listed twice, every occurrence trains and is weighted)
# E: a round without any client at all (every sampled client dropped out)
COHORTS = {'A': [0], 'B': [1], 'AB': [0, 1], 'AC': [0, 2], 'BA': [1, 0], 'DB': [3, 1], 'C': [2], 'ABA': [0, 1, 0], 'E': []}
# b4drop: batch_size 4 with drop_remainder - the clients with 2 and 3 examples take NO step (zero update, non-zero weight)
# ...skip: one unshuffled pass (skip_shuffle=True); for MimeLite the full-batch gradient pass then uses the SAME batch size, one bucket
BATCHING = {'b2e1': (2, 1, None, 0), 'b3e2': (3, 2, None, 1), 'b1s1': (1, None, 1, 0), 'b4drop': (4, 1, None, 0, True),
            'b2e1skip': (2, 1, None, 0, False, True), 'b3e1skip': (3, 1, None, 0, False, True), 'b2e2skip': (2, 2, None, 0, False, True)}


def pair(case):
  """Returns (step_a, init_a, step_b, init_b, params_a, params_b); step(state, cohort) -> new state."""
  import fedjax
  import jax
  import jax.numpy as jnp
  kind, lr, hp = case['pair'], case['lr'], BATCHING[case['batching']]
  co = case.get('copt', 'sgd')  # client optimizer: a stateful one separates optimizer states that SGD cannot
  bk = {'backend': case['backend']} if case.get('backend') else {}
  def plain(alg):
    f = lambda st, cohort: alg.apply(st, cohort)[0]
    f.alg = alg
    return f
  P = lambda st: st.params
  if kind == 'fedprox0':
    a, ia = systems.build('fed_prox', **bk, mu=0.0, copt=co, sopt='mom', lr_c=lr, lr_s=0.5, loss='rng', hp=hp)
    b, ib = systems.build('fed_avg', **bk, copt=co, sopt='mom', lr_c=lr, lr_s=0.5, loss='rng', hp=hp)
    return plain(a), ia, plain(b), ib, P, P
  if kind.startswith('fedprox_mu'):
    mu = float(kind.split('mu')[1])
    a, ia = systems.build('fed_prox', **bk, mu=mu, copt='sgd', sopt='mom', lr_c=lr, lr_s=0.5, loss='rng', hp=hp)
    from fedjax.algorithms import fed_avg
    base = algos.make_loss('rng')
    c_opt, _ = algos.make_opt('sgd', lr)
    s_opt, _ = algos.make_opt('mom', 0.5)
    hparams = systems._hp(*hp)

    def step_b(st, cohort):
      center = jax.tree_util.tree_map(lambda x: jnp.array(x), st.params)

      def aug(params, batch, rng):
        pen = 0.5 * mu * sum(jnp.sum((params[k] - center[k]) ** 2) for k in params)
        return base(params, batch, rng) + pen
      alg = fed_avg.federated_averaging(fedjax.grad(aug), c_opt, s_opt, hparams)
      return alg.apply(st, cohort)[0]
    ib = fed_avg.ServerState(algos.jparams(), s_opt.init(algos.jparams()))
    return plain(a), ia, step_b, ib, P, P
  if kind == 'hyp1':
    a, ia = systems.build('hyp_cluster', **bk, clusters=1, copt=co, sopt='mom', lr_c=lr, lr_s=0.5, loss='plain', hp=hp)
    b, ib = systems.build('fed_avg', **bk, copt=co, sopt='mom', lr_c=lr, lr_s=0.5, loss='plain', hp=hp)
    return plain(a), ia, plain(b), ib, (lambda st: st.cluster_params[0]), P
  if kind in ('mimelite_sgd', 'mimelite_sgd_clip'):
    # _clip: a clipping bound that never binds (1e6) leaves the reduction intact - also with empty clients in the cohort
    ck = {'clip': 1e6} if kind.endswith('_clip') else {}
    if case['batching'].endswith('skip'):
      ck['ghp'] = (hp[0], 1)
    a, ia = systems.build('mime_lite', **bk, base='sgd', lr=lr, server_lr=1.0, loss='rng', hp=hp, **ck)
    b, ib = systems.build('fed_avg', **bk, copt='sgd', sopt='sgd', lr_c=lr, lr_s=1.0, loss='rng', hp=hp)
    return plain(a), ia, plain(b), ib, P, P
  if kind == 'apfl_global':
    a, ia = systems.build('apfl', **bk, coef=0.5, copt=co, sopt='mom', lr_c=lr, lr_s=0.5, loss='plain', hp=hp)
    b, ib = systems.build('fed_avg', **bk, copt=co, sopt='mom', lr_c=lr, lr_s=0.5, loss='plain', hp=hp)
    return plain(a), ia, plain(b), ib, P, P
  if kind == 'mime_one_step':
    gamma = 0.5
    reg = case.get('reg')
    a, ia = systems.build('mime', **bk, base='sgd', lr=lr, server_lr=gamma, loss='plain', hp=(2, None, 1, 0), ghp=(2, 2), reg=reg)

    def step_ref(st, cohort):
      p = algos.nparams({k: np.asarray(v) for k, v in st.items()})
      xs = [ds.raw_examples for _, ds, _ in cohort if len(ds)]
      if xs:
        allex = {k: np.concatenate([e[k] for e in xs]) for k in ('x', 'y')}
        g = algos.ref_grad(p, allex)
        if reg:
          g = {k: g[k] + 2 * reg * p[k] for k in g}
      else:
        g = {k: np.zeros_like(v) for k, v in p.items()}
      return {k: p[k] - gamma * lr * g[k] for k in p}
    return plain(a), ia, step_ref, algos.nparams(algos.P0), P, (lambda st: st)
  raise KeyError(kind)


def systems_second_roots(case, p1):
  """Initial states of both systems of a pair for other initial parameters (same long-lived algorithm objects)."""
  kind, lr, hp = case['pair'], case['lr'], BATCHING[case['batching']]
  co = case.get('copt', 'sgd')
  bk = {'backend': case['backend']} if case.get('backend') else {}
  if kind == 'fedprox0':
    a, _ = systems.build('fed_prox', **bk, mu=0.0, copt=co, sopt='mom', lr_c=lr, lr_s=0.5, loss='rng', hp=hp)
    b, _ = systems.build('fed_avg', **bk, copt=co, sopt='mom', lr_c=lr, lr_s=0.5, loss='rng', hp=hp)
  elif kind == 'mimelite_sgd':
    a, _ = systems.build('mime_lite', **bk, base='sgd', lr=lr, server_lr=1.0, loss='rng', hp=hp)
    b, _ = systems.build('fed_avg', **bk, copt='sgd', sopt='sgd', lr_c=lr, lr_s=1.0, loss='rng', hp=hp)
  elif kind == 'apfl_global':
    a, _ = systems.build('apfl', **bk, coef=0.5, copt=co, sopt='mom', lr_c=lr, lr_s=0.5, loss='plain', hp=hp)
    b, _ = systems.build('fed_avg', **bk, copt=co, sopt='mom', lr_c=lr, lr_s=0.5, loss='plain', hp=hp)
  else:
    return None
  return a.init(p1), b.init(p1)


def lockstep(case):
  depth = case['depth']
  step_a, ia, step_b, ib, pa, pb = pair(case)
  pop = algos.population(SIZES, case.get('seed', 0), batch_level_pre=bool(case.get('batch_level_pre')))
  stats = {'transitions': 0, 'states': 1}
  outs = set()
  viols = []

  def rec(hist, sa, sb):
    if len(hist) >= depth:
      return
    for name, idxs in COHORTS.items():
      h2 = hist + [name]
      if 'history' in case and case['history'][:len(h2)] != h2:
        continue
      if case['pair'].startswith('fedprox_mu') and len(h2) > case.get('mu_depth', 2):
        continue
      if name == 'E' and case['pair'] not in ('fedprox0', 'apfl_global') and not case['pair'].startswith('fedprox_mu'):
        continue   # Mime / MimeLite reject a cohort without clients (TypeError on the pinned tree: no full-batch gradient);
        # hyp1: a cluster without clients stays untouched (C17) while FedAvg steps its momentum: the conflict recorded as F20
      if case['pair'].startswith('fedprox_mu') and len(h2) == 2 and case.get('second_level') and name not in case['second_level']:
        continue
      nc = dict(case, history=h2)
      cohort = [pop[i] for i in idxs]
      if case.get('abort'):
        # the round first fails at its last non-empty client (a transient error in that client's data) and is then retried:
        # whatever the failed attempt left in the long-lived algorithm objects must not reach the retry or later rounds
        for stp, st_ in ((step_a, sa), (step_b, sb)):
          if hasattr(stp, 'alg') and algos.aborted_round(stp.alg, st_, cohort):
            stats['aborted'] = stats.get('aborted', 0) + 1
      na, nb = step_a(sa, cohort), step_b(sb, cohort)
      ga = {k: np.asarray(v, np.float64) for k, v in pa(na).items()}
      gb = {k: np.asarray(v, np.float64) for k, v in pb(nb).items()}
      bad = None
      if not all(np.all(np.isfinite(v)) for v in ga.values()):
        bad = 'parameters are not finite'
      elif not algos.params_close(ga, gb, rtol=2e-5, atol=2e-6):
        bad = 'after round %d the server parameters of the two systems differ' % len(h2)
      if bad:
        # report, do not descend (the two systems have diverged), keep exploring the siblings
        viols.append({'msg': bad, 'expected': algos.plist(gb), 'observed': algos.plist(ga), 'case': nc})
        stats['transitions'] += 1
        continue
      stats['transitions'] += 1
      stats['states'] += 1
      outs.add(core.digest(algos.plist(gb)))
      rec(h2, na, nb)
  rec([], ia, ib)
  if 'history' not in case and case['pair'] in ('fedprox0', 'mimelite_sgd', 'apfl_global'):
    # second root: both long-lived systems are re-initialised with other parameters and stepped again (depth <= 2)
    from fedjax.algorithms import fed_avg as _fa
    p1 = algos.jparams({'w': [-1.0, 0.75], 'b': -0.25})
    depth = min(depth, 2)
    roots = systems_second_roots(case, p1)
    if roots is not None:
      rec([], roots[0], roots[1])
  return {'evals': stats['transitions'], 'states': stats['states'], 'transitions': stats['transitions'],
          'traces': stats['transitions'], 'outcomes': sorted(outs), 'nontrivial': True, 'violations': viols,
          'keys': [[case['pair'], case.get('copt', 'sgd'), case.get('backend', 'jit'), case['lr'], case['batching'], i] for i in range(stats['transitions'])],
          'stats': {'aborted_attempts_before_retry': stats.get('aborted', 0)},
          'sample': {'pair': case['pair'], 'lr': case['lr'], 'batching': case['batching'],
                     'transitions': stats['transitions'], 'distinct_parameter_vectors': len(outs)}}


SUBS = {'lockstep': lockstep}
TIMEOUTS = {'lockstep': 3000}


# sub-spaces re-executed under other interpreter configurations (mc.core.CONFIGS): {configuration: {sub-space: stride}}
# quick tier: every stride-th planned case, thorough tier: all planned cases
CONFIG_PASSES = {'x64': {'lockstep': 5}}


def plan(ctx):
  th = ctx.tier == 'thorough'
  depth = 4 if th else 2
  ctx.rule = ('pairs {FedProx(0)=FedAvg, FedProx(mu in {0.5,2})=FedAvg on the loss + proximal penalty, HypCluster(1)=FedAvg, '
              'MimeLite(SGD, server lr 1, with and without a non-binding clip)=FedAvg(SGD,SGD(1)), APFL global=FedAvg, Mime(SGD, 1 step)=full-batch gradient step} x '
              'learning rate {1/8,1/2} x batching {(2,1 epoch),(3,2 epochs),(1,num_steps=1)} x every cohort history up to depth '
              '%d over 8 cohorts (one listing a client twice) of population (2,3,0,5); compared after every round' % depth)
  ctx.assumptions += ['both sides are real fedjax algorithms except the Mime reduction (float64 full-batch gradient step)',
                      'the FedProx(mu>0) counterpart is a fresh FedAvg instance per round closed over that round\'s server '
                      'parameters (histories of depth <= 2 for this pair)']
  cs = []
  for p in ('fedprox0', 'hyp1', 'mimelite_sgd', 'apfl_global'):
    for lr in (0.125, 0.5):
      for b in BATCHING:
        if not th and (lr, b) not in ((0.125, 'b2e1'), (0.5, 'b3e2'), (0.125, 'b1s1'), (0.5, 'b4drop'), (0.125, 'b2e1skip'), (0.5, 'b3e1skip'), (0.125, 'b2e2skip')):
          continue
        cs.append({'pair': p, 'lr': lr, 'batching': b, 'depth': depth, 'seed': ctx.seed})
  # clients whose datasets carry a batch-level preprocessor (centring on the batch mean): both sides must see the same batches
  for p in ('fedprox0', 'hyp1', 'mimelite_sgd', 'apfl_global'):
    cs.append({'pair': p, 'lr': 0.125, 'batching': 'b2e1', 'depth': 2, 'seed': ctx.seed, 'batch_level_pre': True})
  for p in ('fedprox0', 'hyp1', 'mimelite_sgd', 'apfl_global'):
    cs.append({'pair': p, 'lr': 0.125, 'batching': 'b2e1', 'depth': 2 if not th else 3, 'seed': ctx.seed, 'abort': True})
  cs.append({'pair': 'mimelite_sgd_clip', 'lr': 0.125, 'batching': 'b2e1', 'depth': depth, 'seed': ctx.seed})
  for p in ('fedprox0', 'hyp1', 'apfl_global'):
    for co in ('mom', 'adam') if th else ('mom',):
      for lr, b in ((0.125, 'b3e2'), (0.5, 'b2e1')) if th else ((0.125, 'b3e2'),):
        cs.append({'pair': p, 'lr': lr, 'batching': b, 'depth': depth, 'seed': ctx.seed, 'copt': co})
  for mu in ('0.5', '2'):
    for lr, b in ((0.125, 'b2e1'), (0.5, 'b3e2')) if th else ((0.125, 'b2e1'),):
      cs.append({'pair': 'fedprox_mu' + mu, 'lr': lr, 'batching': b, 'depth': 2, 'mu_depth': 2,
                 'second_level': None if th else ['A', 'BA'], 'seed': ctx.seed})
  # the same pairs on the pmap backend (clients are re-ordered by number of batches inside each block)
  for p in ('fedprox0', 'hyp1', 'mimelite_sgd', 'apfl_global'):
    for be in (('pmap2', 'pmap3') if th else ('pmap2',)):
      for b in (('b1s1', 'b3e2') if th else ('b1s1',)):
        cs.append({'pair': p, 'lr': 0.125, 'batching': b, 'depth': 2, 'seed': ctx.seed, 'backend': be})
  for lr in (0.125, 0.5):
    for reg in (None, 0.25):
      cs.append({'pair': 'mime_one_step', 'lr': lr, 'batching': 'b1s1', 'depth': depth, 'reg': reg, 'seed': ctx.seed})
  # one long history per pair (the all-empty cohort C only where the two systems agree on it: not for hyp1, finding F20)
  long_path = ['AB', 'A', 'BA', 'AC', 'B', 'ABA', 'DB', 'AB', 'A', 'AC', 'DB', 'B']
  for p in ('fedprox0', 'hyp1', 'mimelite_sgd', 'apfl_global'):
    cs.append({'pair': p, 'lr': 0.125, 'batching': 'b2e1', 'depth': len(long_path), 'history': long_path, 'seed': ctx.seed})
  ctx.pmap('lockstep', cs, chunk=1)

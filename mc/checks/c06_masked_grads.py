"""C06 - masked gradients and losses ignore padding and batch geometry.

E-enum: all 2^B mask patterns (B<=4) with in-domain poison in masked rows for grad/model_grad; all
(batch_size 1..6 x buckets 1..3) geometries for every dataset-level quantity derived from padded
batches (average loss, AverageLossEvaluator, Mime full-batch gradient, AgnosticFedAvg domain pass,
HypCluster cluster losses). Oracle: the analytic float64 value on the unpadded real rows.
"""
import itertools

import numpy as np

from mc import core
from mc.core import require, Violation

PROPERTY = 'C06'
LEVEL = 'exploration'
MASK = '__mask__'

W0 = {'w': np.array([0.5, -1.0]), 'b': np.array(0.25)}
W1 = {'w': np.array([-0.25, 0.75]), 'b': np.array(-0.5)}
CENTER = {'w': np.array([0.25, 0.25]), 'b': np.array(1.0)}
GEOMS = [(bs, k) for bs in range(1, 7) for k in (1, 2, 3)]
_CACHE = {}


def data(n, seed, off=0):
  v = core.value_pool(seed * 13 + off * 5 + 3, 3 * max(n, 1) + 3, lo=-2, hi=2, denom=2)
  x = np.asarray(v[:2 * n], np.float32).reshape(n, 2)
  y = np.asarray(v[2 * n:3 * n], np.float32).reshape(n) + np.float32(1 / 32)  # residuals never hit the kink of |r|
  d = (np.arange(n) + off) % 3
  return {'x': x, 'y': y, 'domain_id': d.astype(np.int32)}


# ---- reference (float64, analytic) ------------------------------------------------------------------

def ref_losses(loss, p, ex, u=1.0):
  r = ex['x'].astype(np.float64) @ p['w'] + p['b'] - ex['y'].astype(np.float64)
  base = r * r if loss.startswith('sq') else np.abs(r)
  return base * u, r


def ref_reg(reg, p):
  if reg == 'none':
    return 0.0, {'w': np.zeros(2), 'b': np.zeros(())}
  c = CENTER if reg == 'l2c' else {'w': np.zeros(2), 'b': np.zeros(())}
  val = 0.125 * (np.sum((p['w'] - c['w']) ** 2) + (p['b'] - c['b']) ** 2)
  return float(val), {'w': 0.25 * (p['w'] - c['w']), 'b': 0.25 * (p['b'] - c['b'])}


def ref_grad(loss, reg, p, ex, u=1.0):
  """Gradient of mean(loss over rows of ex) + reg; zero-row input gives the regulariser's gradient."""
  n = len(ex['y'])
  _, r = ref_losses(loss, p, ex)
  dr = (2 * r if loss.startswith('sq') else np.sign(r)) * u
  gw = (dr[:, None] * ex['x'].astype(np.float64)).sum(0) / n if n else np.zeros(2)
  gb = dr.sum() / n if n else 0.0
  _, rg = ref_reg(reg, p)
  return {'w': gw + rg['w'], 'b': np.asarray(gb + rg['b'])}


def ref_avg(loss, reg, p, ex):
  l, _ = ref_losses(loss, p, ex)
  return (float(l.mean()) if len(l) else 0.0) + ref_reg(reg, p)[0]


# ---- implementation side --------------------------------------------------------------------------

def impl(loss, reg):
  """(per_example_loss, regularizer, grad_fn, model, model_grad_fn) cached per process (jit caches)."""
  key = ('impl', loss, reg)
  if key in _CACHE:
    return _CACHE[key]
  import fedjax
  import jax
  import jax.numpy as jnp

  def per_example_loss(params, batch, rng):
    r = batch['x'] @ params['w'] + params['b'] - batch['y']
    base = r * r if loss.startswith('sq') else jnp.abs(r)
    if loss == 'sq_rng':
      base = base * (jax.random.uniform(rng, ()) + 0.5)
    return base
  regularizer = None
  if reg == 'l2':
    regularizer = fedjax.regularizers.l2_regularizer(0.125)
  elif reg == 'l2c':
    regularizer = fedjax.regularizers.l2_regularizer(0.125, center_params=jparams(CENTER))
  grad_fn = fedjax.grad(per_example_loss, regularizer)
  model = None
  mgrad = None
  if loss != 'sq_rng':
    model = fedjax.Model(init=lambda rng: jparams(W0),
                         apply_for_train=lambda p, b, rng=None: b['x'] @ p['w'] + p['b'],
                         apply_for_eval=lambda p, b: b['x'] @ p['w'] + p['b'],
                         train_loss=(lambda b, o: (o - b['y']) ** 2) if loss == 'sq' else (lambda b, o: jnp.abs(o - b['y'])),
                         eval_metrics={})
    mgrad = fedjax.model_grad(model, regularizer)
  _CACHE[key] = (per_example_loss, regularizer, grad_fn, model, mgrad)
  return _CACHE[key]


def jparams(p):
  import jax.numpy as jnp
  return {'w': jnp.asarray(p['w'], jnp.float32), 'b': jnp.asarray(p['b'], jnp.float32)}


def cmp_tree(got, want, what, nc, tol=2e-5):
  for k in ('w', 'b'):
    g = np.asarray(got[k], np.float64)
    w = np.asarray(want[k], np.float64)
    require(g.shape == w.shape and bool(np.all(np.isfinite(g))), what + ': %s not finite / mis-shaped' % k, w.tolist(),
            g.tolist(), case=nc)
    require(bool(np.all(np.abs(g - w) <= tol * (1 + np.abs(w)))), what + ': gradient component %s differs from the '
            'unpadded reference' % k, w.tolist(), g.tolist(), case=nc)


def cmp_scalar(got, want, what, nc, tol=2e-5):
  g = float(np.asarray(got))
  require(np.isfinite(g), what + ': not finite', want, g, case=nc)
  require(abs(g - want) <= tol * (1 + abs(want)), what + ' differs from the unpadded reference', want, g, case=nc)


def grad_masks(case):
  """All mask patterns of a B-row batch; masked rows hold in-domain poison (or zeros)."""
  import jax
  loss, reg, b, kind = case['loss'], case['reg'], case['B'], case['pad']
  per_ex, regz, grad_fn, model, mgrad = impl(loss, reg)
  seed = case.get('seed', 0)
  full = data(b, seed)
  poison = data(b, seed, off=7)
  rng = jax.random.PRNGKey(5)
  u = float(jax.random.uniform(rng, ())) + 0.5 if loss == 'sq_rng' else 1.0
  masks = [case['mask']] if 'mask' in case else [list(m) for m in itertools.product((True, False), repeat=b)]
  evals = 0
  for p in (W0, W1):
    for mask in masks:
      nc = dict(case, mask=list(mask))
      m = np.asarray(mask, bool)
      batch = {k: full[k].copy() for k in ('x', 'y')}
      if kind == 'poison':
        for k in ('x', 'y'):
          batch[k][~m] = poison[k][~m] * 3 + 1 + (1 / 64 if k == 'y' else 0)
      else:
        for k in ('x', 'y'):
          batch[k][~m] = 0
      real = {k: full[k][m] for k in ('x', 'y')}
      want = ref_grad(loss, reg, p, real, u)
      got = grad_fn(jparams(p), {**batch, MASK: m}, rng)
      cmp_tree(got, want, 'fedjax.grad on a masked batch', nc)
      if mgrad is not None:
        cmp_tree(mgrad(jparams(p), {**batch, MASK: m}, rng), want, 'fedjax.model_grad on a masked batch', nc)
      if m.all():
        cmp_tree(grad_fn(jparams(p), batch, rng), want, 'fedjax.grad on the unmasked batch', nc)
      evals += 1
  return {'evals': evals, 'nontrivial': True, 'outcome': [loss, reg, b], 'keys': [[loss, reg, b, kind, i] for i in
                                                                               range(len(masks))]}


def _padded(ds_examples, bs, buckets):
  import fedjax
  return list(fedjax.ClientDataset(ds_examples).padded_batch(batch_size=bs, num_batch_size_buckets=buckets))


def _with_backend(backend, build):
  """Builds a for-each-client object under the named backend ('jit' default, 'debug', 'pmapK')."""
  if not backend or backend == 'jit':
    return build()
  import jax
  from fedjax.core import for_each_client as fecm
  be = fecm.ForEachClientPmapBackend(jax.local_devices()[:int(backend[4:])]) if backend.startswith('pmap') else backend
  with fecm.for_each_client_backend(be):
    return build()


def _geoms(case):
  if 'geom' in case:
    return [tuple(case['geom'])]
  if str(case.get('backend', '')).startswith('pmap'):
    return [(bs, 1) for bs in range(1, 7)]   # the pmap backend needs equally shaped batches inside a block
  return GEOMS


def avg_loss(case):
  """evaluate_average_loss + AverageLossEvaluator over all geometries."""
  import fedjax
  import jax
  loss, reg, n = case['loss'], case['reg'], case['N']
  per_ex, regz, _, _, _ = impl(loss, reg)
  seed = case.get('seed', 0)
  ex = data(n, seed)
  other = data((n + 2) % 5, seed, off=3)
  rng = jax.random.PRNGKey(1)
  key = ('ale', loss, reg)
  if key not in _CACHE:
    _CACHE[key] = fedjax.AverageLossEvaluator(per_ex, regz)
  ale = _CACHE[key]
  geoms = [tuple(case['geom'])] if 'geom' in case else GEOMS
  evals = 0
  vals = []
  for p in (W0, W1):
    want = ref_avg(loss, reg, p, ex)
    want_o = ref_avg(loss, reg, p, other)
    for bs, k in geoms:
      nc = dict(case, geom=[bs, k])
      batches = _padded(ex, bs, k)
      got = fedjax.evaluate_average_loss(jparams(p), batches, rng, per_ex, regz)
      cmp_scalar(got, want, 'evaluate_average_loss', nc)
      vals.append(round(float(got), 5))
      # plus an explicit fully padded batch appended
      pad = {kk: np.zeros((2,) + v.shape[1:], v.dtype) for kk, v in ex.items()}
      pad[MASK] = np.zeros(2, bool)
      got2 = fedjax.evaluate_average_loss(jparams(p), batches + [pad], rng, per_ex, regz)
      cmp_scalar(got2, want, 'evaluate_average_loss with a trailing fully padded batch', nc)
      # ... and in front / in the middle / nothing but fully padded batches (streamed batch lists)
      for where, bl in (('leading', [pad, dict(pad)] + batches), ('middle', batches[:1] + [pad] + batches[1:]),
                        ('only', [pad, dict(pad)] if n == 0 else None)):
        if bl is None:
          continue
        got4 = fedjax.evaluate_average_loss(jparams(p), bl, rng, per_ex, regz)
        cmp_scalar(got4, want, 'evaluate_average_loss with fully padded batches (%s)' % where, dict(nc, where=where))
        res4 = dict(ale.evaluate_global_params(jparams(p), [(b'p', bl, jax.random.PRNGKey(6))]))
        cmp_scalar(res4[b'p'], want, 'AverageLossEvaluator with fully padded batches (%s)' % where, dict(nc, where=where))
      if n >= 2 and (bs, k) == geoms[0]:
        # hand-made batches whose real rows are NOT a prefix (masked rows in front / in between, holding garbage)
        for layout in ('front', 'between', 'split'):
          rows = [{kk: v[i] for kk, v in ex.items()} for i in range(n)]
          junk = {kk: (np.asarray(v[0]) * 0 + 97).astype(v.dtype) for kk, v in ex.items()}
          if layout == 'front':
            seq, msk = [junk, junk] + rows, [False, False] + [True] * n
          elif layout == 'between':
            seq, msk = [rows[0], junk] + rows[1:] + [junk], [True, False] + [True] * (n - 1) + [False]
          else:
            seq, msk = [junk] + rows[:1] + [junk], [False, True, False]
          hb = {kk: np.stack([r[kk] for r in seq]) for kk in ex}
          hb[MASK] = np.asarray(msk)
          hbs = [hb] if layout != 'split' else [hb, {**{kk: np.stack([r[kk] for r in rows[1:] + [junk]]) for kk in ex},
                                                      MASK: np.asarray([True] * (n - 1) + [False])}]
          got3 = fedjax.evaluate_average_loss(jparams(p), hbs, rng, per_ex, regz)
          cmp_scalar(got3, want, 'evaluate_average_loss on hand-made batches (masked rows %s the real rows)' % layout, dict(nc, layout=layout))
          res3 = dict(ale.evaluate_global_params(jparams(p), [(b'h', hbs, jax.random.PRNGKey(5))]))
          cmp_scalar(res3[b'h'], want, 'AverageLossEvaluator on hand-made batches (masked rows %s the real rows)' % layout, dict(nc, layout=layout))
      clients = [(b'a', batches, jax.random.PRNGKey(2)), (b'o', _padded(other, bs, k), jax.random.PRNGKey(3)),
                 (b'e', [], jax.random.PRNGKey(4))]
      res = dict(ale.evaluate_global_params(jparams(p), clients))
      require(set(res) == {b'a', b'o', b'e'}, 'AverageLossEvaluator ids', case=nc)
      cmp_scalar(res[b'a'], want, 'AverageLossEvaluator.evaluate_global_params', nc)
      cmp_scalar(res[b'o'], want_o, 'AverageLossEvaluator.evaluate_global_params (second client)', nc)
      cmp_scalar(res[b'e'], ref_reg(reg, p)[0], 'AverageLossEvaluator on a client without batches', nc)
      if (bs + k) % 3 == 0:
        res = dict(ale.evaluate_per_client_params([(b'a', batches, jax.random.PRNGKey(2), jparams(p)),
                                                   (b'o', _padded(other, bs, k), jax.random.PRNGKey(3), jparams(W1))]))
        cmp_scalar(res[b'a'], want, 'AverageLossEvaluator.evaluate_per_client_params', nc)
        cmp_scalar(res[b'o'], ref_avg(loss, reg, W1, other), 'AverageLossEvaluator.evaluate_per_client_params (2)', nc)
      evals += 1
  return {'evals': evals, 'nontrivial': n % 2 == 1 or n == 0, 'outcome': vals[:3], 'keys': [[loss, reg, n, g] for g in geoms]}


def mime_grads(case):
  """Mime's full-batch gradient pass: sum(num*g)/sum(num) over every geometry."""
  import jax
  from fedjax.algorithms import mime
  loss, reg, sizes = case['loss'], case['reg'], case['sizes']
  per_ex, regz, grad_fn, _, _ = impl(loss, reg)
  key = ('mimeg', loss, reg, case.get('backend'))
  if key not in _CACHE:
    _CACHE[key] = _with_backend(case.get('backend'), lambda: mime.create_grads_for_each_client(grad_fn))
  fec = _CACHE[key]
  seed = case.get('seed', 0)
  exs = [data(n, seed, off=i) for i, n in enumerate(sizes)]
  geoms = _geoms(case)
  evals = 0
  for p in (W0, W1):
    for bs, k in geoms:
      nc = dict(case, geom=[bs, k])
      clients = [(b'c%d' % i, _padded(ex, bs, k), jax.random.PRNGKey(i)) for i, ex in enumerate(exs)]
      out = dict(fec(jparams(p), clients))
      require(len(out) == len(sizes), 'one result per client', case=nc)
      tot = {'w': np.zeros(2), 'b': np.zeros(())}
      ntot = 0.0
      for i, ex in enumerate(exs):
        gsum, num = out[b'c%d' % i]
        require(float(num) == len(ex['y']), 'client %d: num_sum is not the number of real examples' % i, len(ex['y']),
                float(num), case=nc)
        want = ref_grad(loss, reg, p, ex)
        n = len(ex['y'])
        cmp_tree({kk: np.asarray(v) for kk, v in gsum.items()}, {kk: v * n for kk, v in want.items()},
                 'client %d: grads_sum != num * (full-batch gradient + regulariser gradient)' % i, nc, tol=5e-5)
        for kk in tot:
          tot[kk] = tot[kk] + np.asarray(gsum[kk], np.float64)
        ntot += float(num)
      if (bs, k) == geoms[0] and not str(case.get('backend', '')).startswith('pmap'):
        # streamed / hand-made batch lists that contain FULLY padded batches (no real row) - first, in the middle, last, or
        # nothing else: the client's sum and count are those of its real examples
        for where in ('lead', 'mid', 'last', 'only_pads', 'two_leading'):
          cl2 = []
          for i, ex in enumerate(exs):
            real = _padded(ex, bs, k)
            pad = {kk: np.zeros((bs,) + v.shape[1:], v.dtype) for kk, v in ex.items()}
            pad[MASK] = np.zeros(bs, bool)
            if where == 'lead':
              bl = [pad] + real
            elif where == 'two_leading':
              bl = [pad, dict(pad)] + real
            elif where == 'mid':
              bl = real[:1] + [pad] + real[1:]
            elif where == 'last':
              bl = real + [pad]
            else:
              bl = [pad, dict(pad)] if len(ex['y']) == 0 else [pad] + real + [pad]
            cl2.append((b'c%d' % i, bl, jax.random.PRNGKey(i)))
          out2 = dict(fec(jparams(p), cl2))
          for i, ex in enumerate(exs):
            gsum, num = out2[b'c%d' % i]
            n = len(ex['y'])
            require(float(num) == n, 'client %d: num_sum with fully padded batches (%s)' % (i, where), n, float(num), case=dict(nc, where=where))
            want = ref_grad(loss, reg, p, ex)
            cmp_tree({kk: np.asarray(v) for kk, v in gsum.items()}, {kk: v * n for kk, v in want.items()},
                     'client %d: grads_sum over a batch list with fully padded batches (%s) != num * full-batch gradient' % (i, where),
                     dict(nc, where=where), tol=5e-5)
          evals += 1
      allex = {kk: np.concatenate([e[kk] for e in exs]) for kk in ('x', 'y')}
      if ntot > 0:
        cmp_tree({kk: v / ntot for kk, v in tot.items()}, ref_grad(loss, reg, p, allex),
                 'cohort: sum(num*g)/sum(num) != full-batch gradient', nc, tol=5e-5)
      evals += 1
  return {'evals': evals, 'nontrivial': 0 in sizes or len(sizes) > 1, 'outcome': [loss, reg, sizes],
          'keys': [[loss, reg, sizes, g] for g in geoms]}


def agnostic_domain(case):
  """AgnosticFedAvg's domain pass: per-domain loss sums, counts and beta for every geometry."""
  import jax
  import jax.numpy as jnp
  from fedjax.algorithms import agnostic_fed_avg as afa
  loss, sizes, nd = case['loss'], case['sizes'], case['num_domains']
  reg = case.get('reg', 'none')
  per_ex, regz, _, _, _ = impl(loss, reg)
  key = ('afa', loss, nd, case.get('backend'), reg)
  if key not in _CACHE:
    _CACHE[key] = _with_backend(case.get('backend'), lambda: (
        afa.create_domain_metrics_for_each_client(per_ex, nd) if reg == 'none' else
        afa.create_domain_metrics_for_each_client(per_ex, nd, regz)))
  fec = _CACHE[key]
  seed = case.get('seed', 0)
  exs = [data(n, seed, off=i) for i, n in enumerate(sizes)]
  for ex in exs:
    ex['domain_id'] = (ex['domain_id'] % nd).astype(np.int32)
  alpha = np.asarray([0.5, 1.5, 2.0, 0.25, 3.0][:nd])
  geoms = _geoms(case)
  evals = 0
  for p in (W0, W1):
    for bs, k in geoms:
      nc = dict(case, geom=[bs, k])
      clients = [(b'c%d' % i, _padded(ex, bs, k), jax.random.PRNGKey(i)) for i, ex in enumerate(exs)]
      out = dict(fec({'params': jparams(p), 'alpha': jnp.asarray(alpha, jnp.float32)}, clients))
      for i, ex in enumerate(exs):
        o = out[b'c%d' % i]
        l, _ = ref_losses(loss, p, ex)
        wn = np.array([float((ex['domain_id'] == d).sum()) for d in range(nd)])
        # with a regularizer the per-domain MEAN loss is mean + regularizer: the sums carry it once per real example
        wl = np.array([l[ex['domain_id'] == d].sum() for d in range(nd)]) + (ref_reg(reg, p)[0] * wn if reg != 'none' else 0.0)
        g = np.asarray(o['domain_loss'], np.float64)
        require(bool(np.all(np.isfinite(g))) and bool(np.all(np.abs(g - wl) <= 5e-5 * (1 + np.abs(wl)))),
                'client %d: per-domain loss sums' % i, wl.tolist(), g.tolist(), case=nc)
        require(np.asarray(o['domain_num']).tolist() == wn.tolist(), 'client %d: per-domain counts' % i, wn.tolist(),
                np.asarray(o['domain_num']).tolist(), case=nc)
        cmp_scalar(o['beta'], float((alpha * wn).sum()), 'client %d: beta' % i, nc)
      evals += 1
  return {'evals': evals, 'nontrivial': True, 'outcome': [loss, sizes, nd], 'keys': [[loss, sizes, nd, g] for g in geoms]}


def hyp_losses(case):
  """HypCluster: per-client per-cluster average losses and the assignment for every geometry."""
  import fedjax
  import jax
  from fedjax.algorithms import hyp_cluster
  from fedjax.core import client_datasets as cds
  loss, reg, sizes = case['loss'], case['reg'], case['sizes']
  per_ex, regz, _, _, _ = impl(loss, reg)
  key = ('ale', loss, reg, case.get('backend'))
  if key not in _CACHE:
    _CACHE[key] = _with_backend(case.get('backend'), lambda: fedjax.AverageLossEvaluator(per_ex, regz))
  ale = _CACHE[key]
  seed = case.get('seed', 0)
  exs = [data(n, seed, off=i) for i, n in enumerate(sizes)]
  geoms = _geoms(case)
  clusters = [W0, W1]
  evals = 0
  base = None
  for bs, k in geoms:
    nc = dict(case, geom=[bs, k])
    clients = [(b'c%d' % i, fedjax.ClientDataset(ex), jax.random.PRNGKey(i)) for i, ex in enumerate(exs)]
    hp = cds.PaddedBatchHParams(batch_size=bs, num_batch_size_buckets=k)
    losses = hyp_cluster._cluster_losses(ale, [jparams(c) for c in clusters], clients, hp)
    assign = hyp_cluster.maximization_step(ale, [jparams(c) for c in clusters], clients, hp)
    for i, ex in enumerate(exs):
      want = [ref_avg(loss, reg, c, ex) for c in clusters]
      got = [float(v) for v in losses[b'c%d' % i]]
      for g, w in zip(got, want):
        cmp_scalar(g, w, 'client %d: cluster loss' % i, nc)
      a = int(assign[b'c%d' % i])
      require(want[a] <= min(want) + 1e-5 * (1 + abs(min(want))), 'client %d assigned to a cluster of non-minimal loss' % i,
              int(np.argmin(want)), a, case=nc)
    cur = {kk: int(v) for kk, v in assign.items()}
    if base is None:
      base = cur
    # assignments may legitimately differ only on exact ties
    for i, ex in enumerate(exs):
      want = [ref_avg(loss, reg, c, ex) for c in clusters]
      if abs(want[0] - want[1]) > 1e-4:
        require(cur[b'c%d' % i] == base[b'c%d' % i], 'assignment depends on the batch geometry', case=nc)
    evals += 1
  return {'evals': evals, 'nontrivial': True, 'outcome': [loss, reg, sizes], 'keys': [[loss, reg, sizes, g] for g in geoms]}


def reg_sequence(case):
  """History on the jit caches: regularizers built one after another that differ only in the VALUES of their centre /
  per-parameter weights (same weight, same shapes) - each evaluation must use ITS regularizer."""
  import fedjax
  import jax
  import jax.numpy as jnp
  loss, n = case['loss'], case['N']
  per_ex, _, _, _, _ = impl(loss, 'none')
  ex = data(n, case.get('seed', 0))
  rng = jax.random.PRNGKey(1)
  centers = [{'w': np.array([0.25, 0.25]), 'b': np.array(1.0)}, {'w': np.array([-1.0, 2.0]), 'b': np.array(-0.5)},
             {'w': np.array([0.0, 0.0]), 'b': np.array(3.0)}]
  pweights = [{'w': np.array([1.0, 2.0]), 'b': np.array(0.5)}, {'w': np.array([3.0, 0.25]), 'b': np.array(2.0)}]
  evals = 0
  p = W0
  regs = [('center', c) for c in centers] + [('weights', w) for w in pweights]
  for kind, val in regs:
    nc = dict(case, reg=[kind, {k: np.asarray(v).tolist() for k, v in val.items()}])
    if kind == 'center':
      regz = fedjax.regularizers.l2_regularizer(0.125, center_params=jparams(val))
      rv = 0.125 * (np.sum((p['w'] - val['w']) ** 2) + (p['b'] - val['b']) ** 2)
      rg = {'w': 0.25 * (p['w'] - val['w']), 'b': 0.25 * (p['b'] - val['b'])}
    else:
      regz = fedjax.regularizers.l2_regularizer(0.125, params_weights=jparams(val))
      rv = 0.125 * (np.sum(val['w'] * p['w'] ** 2) + val['b'] * p['b'] ** 2)
      rg = {'w': 0.25 * val['w'] * p['w'], 'b': 0.25 * val['b'] * p['b']}
    l, _ = ref_losses(loss, p, ex)
    want = (float(l.mean()) if len(l) else 0.0) + float(rv)
    for bs, k in ((2, 1), (4, 2)):
      got = fedjax.evaluate_average_loss(jparams(p), _padded(ex, bs, k), rng, per_ex, regz)
      cmp_scalar(got, want, 'evaluate_average_loss with regularizer #%d of the sequence' % evals, nc)
      ale = fedjax.AverageLossEvaluator(per_ex, regz)
      res = dict(ale.evaluate_global_params(jparams(p), [(b'a', _padded(ex, bs, k), jax.random.PRNGKey(2))]))
      cmp_scalar(res[b'a'], want, 'AverageLossEvaluator with regularizer #%d of the sequence' % evals, nc)
    g = fedjax.grad(per_ex, regz)(jparams(p), {'x': ex['x'], 'y': ex['y']}, rng)
    base = ref_grad(loss, 'none', p, ex)
    cmp_tree(g, {kk: base[kk] + rg[kk] for kk in base}, 'fedjax.grad with regularizer #%d of the sequence' % evals, nc)
    evals += 1
  return {'evals': evals, 'nontrivial': True, 'outcome': [loss, n]}


def mime_server_grad(case):
  """The full-batch server gradient that the Mime algorithm itself derives (read off the new parameters of a
  round with plain SGD and one local step: w' = w - server_lr * lr * c) for several padded geometries."""
  import fedjax
  import jax
  from fedjax.algorithms import mime
  loss, reg, sizes = case['loss'], case['reg'], case['sizes']
  per_ex, regz, _, _, _ = impl(loss, reg)
  seed = case.get('seed', 0)
  exs = [data(n, seed, off=i) for i, n in enumerate(sizes)]
  lr, slr = 0.25, 0.5
  geoms = [tuple(case['geom'])] if 'geom' in case else [(1, 1), (2, 1), (2, 2), (4, 3), (5, 2), (8, 1)]
  evals = 0
  allex = {kk: np.concatenate([e[kk] for e in exs]) for kk in ('x', 'y')}
  want_c = ref_grad(loss, reg, W0, allex) if len(allex['y']) else None
  for bs, k in geoms:
    nc = dict(case, geom=[bs, k])
    base = case.get('base', 'sgd')   # 'mom': the base optimizer's momentum buffer holds the server gradient after a round
    key = ('mime_alg', loss, reg, bs, k, base)
    if key not in _CACHE:
      _CACHE[key] = mime.mime(per_ex, fedjax.optimizers.sgd(lr) if base == 'sgd' else fedjax.optimizers.sgd(lr, momentum=0.5),
                              fedjax.ShuffleRepeatBatchHParams(batch_size=2, num_epochs=None, num_steps=1, seed=0),
                              fedjax.PaddedBatchHParams(batch_size=bs, num_batch_size_buckets=k), server_learning_rate=slr,
                              regularizer=regz)
    alg = _CACHE[key]
    clients = [(b'c%d' % i, fedjax.ClientDataset(ex), jax.random.PRNGKey(i)) for i, ex in enumerate(exs)]
    from mc import algos
    algos.aborted_round(alg, alg.init(jparams(W0)), clients)  # a round that fails at its last client, then the real one
    st, _ = alg.apply(alg.init(jparams(W0)), clients)
    for leaf in jax.tree_util.tree_leaves(st):
      require(bool(np.all(np.isfinite(np.asarray(leaf, np.float64)))), 'Mime: the server state after the round is not finite (a '
              'cohort without real examples must give a zero server gradient, not NaN)', case=nc)
    if base == 'mom':
      # momentum buffer after the first round = full-batch server gradient (zero for a cohort without examples)
      mom = [np.asarray(l, np.float64) for l in jax.tree_util.tree_leaves(st.opt_state) if np.asarray(l).shape in ((2,), ())]
      wc = want_c if want_c is not None else {'w': np.zeros(2), 'b': np.zeros(())}
      got_m = {('w' if m.shape == (2,) else 'b'): m for m in mom}
      if set(got_m) == {'w', 'b'}:
        cmp_tree(got_m, wc, 'Mime: the full-batch server gradient held by the base optimizer differs from the reference', nc, tol=2e-4)
      evals += 1
      continue
    if want_c is None:
      for kk in ('w', 'b'):
        require(np.array_equal(np.asarray(st.params[kk]), np.asarray(jparams(W0)[kk])), 'a cohort without examples moved the '
                'parameters', case=nc)
    else:
      got_c = {kk: (np.asarray(W0[kk], np.float64) - np.asarray(st.params[kk], np.float64)) / (slr * lr) for kk in ('w', 'b')}
      cmp_tree(got_c, want_c, 'Mime: the server gradient implied by the round is not the full-batch gradient with the '
               'regulariser counted once', nc, tol=2e-4)
    evals += 1
  return {'evals': evals, 'nontrivial': True, 'outcome': [loss, reg, sizes], 'keys': [[loss, reg, sizes, g] for g in geoms]}


def nonfinite_loss(case):
  """A per-example loss that is +inf / NaN on one REAL example (a confidently wrong prediction, log 0): the average over padded
  batches is what the unpadded batches give (inf / NaN - not a large finite number, not 0), for every geometry."""
  import fedjax
  import jax
  import jax.numpy as jnp
  n, bad, kind = case['N'], case['bad'], case['kind']
  val = {'inf': np.inf, 'nan': np.nan}[kind]
  ex = data(n, case.get('seed', 0))
  ex['flag'] = np.zeros(n, np.float32)
  if n:
    ex['flag'][bad % n] = 1.0
  key = ('nonfinite', kind)
  if key not in _CACHE:
    def per_ex(params, b, rng):
      r = b['x'] @ params['w'] + params['b'] - b['y']
      return jnp.where(b['flag'] > 0.5, jnp.asarray(val, jnp.float32), r * r)
    _CACHE[key] = (per_ex, fedjax.AverageLossEvaluator(per_ex))
  per_ex, ale = _CACHE[key]
  rng = jax.random.PRNGKey(1)
  plain = [{kk: v[i:i + 2] for kk, v in ex.items()} for i in range(0, n, 2)]
  want = float(fedjax.evaluate_average_loss(jparams(W0), plain, rng, per_ex)) if n else 0.0
  require((np.isposinf(want) if kind == 'inf' else np.isnan(want)) or n == 0, 'harness: the unpadded average is not %s' % kind, kind, want, case=case)
  evals = 0
  for bs, k in _geoms(case):
    nc = dict(case, geom=[bs, k])
    batches = _padded(ex, bs, k)
    got = float(fedjax.evaluate_average_loss(jparams(W0), batches, rng, per_ex))
    got_e = float(dict(ale.evaluate_global_params(jparams(W0), [(b'a', batches, rng)]))[b'a'])
    for g, what in ((got, 'evaluate_average_loss'), (got_e, 'AverageLossEvaluator')):
      same = (np.isnan(g) and np.isnan(want)) or g == want
      require(same, '%s over padded batches differs from the unpadded average when a real example has a %s loss' % (what, kind), want, g, case=nc)
    evals += 1
  return {'evals': evals, 'nontrivial': True, 'outcome': [n, bad, kind], 'keys': [[n, bad, kind, list(g)] for g in _geoms(case)]}


def kmeans_centers(case):
  """ModelKMeansInitializer / kmeans_init: every further centre is the trained parameters of a client whose best average
  loss (over the centres so far, from padded batches, regulariser counted once per evaluation) is maximal - for every
  evaluation geometry."""
  import fedjax
  import jax
  import jax.numpy as jnp
  from fedjax.algorithms import hyp_cluster as hc
  from mc import algos, systems
  lam, k, sizes, route = case.get('lam'), case['clusters'], case['sizes'], case.get('route', 'model')
  lr = 0.125
  key = ('kmeans', lam)
  if key not in _CACHE:
    model = fedjax.Model(init=lambda rng: algos.jparams(), apply_for_train=lambda p, b, r=None: b['x'] @ p['w'] + p['b'],
                         apply_for_eval=lambda p, b: b['x'] @ p['w'] + p['b'], train_loss=lambda b, o: (o - b['y']) ** 2,
                         eval_metrics={})
    reg = systems.half_l2(lam) if lam else None
    _CACHE[key] = (hc.ModelKMeansInitializer(model, fedjax.optimizers.sgd(lr), reg),
                   hc.ClientParamsTrainer(fedjax.model_grad(model, reg), fedjax.optimizers.sgd(lr)),
                   fedjax.AverageLossEvaluator(fedjax.model_per_example_loss(model), reg))
  initializer, trainer, evaluator = _CACHE[key]
  regv = lambda p: 0.5 * lam * float(sum(np.sum(np.asarray(v, np.float64) ** 2) for v in p.values())) if lam else 0.0
  # heterogeneous clients (label offsets): their trained models, hence the regulariser values of the candidate centres, differ a lot
  offs = [-4.0, 0.0, 3.0, 6.0, -1.5, 2.0]

  def data_fn(n, idx, seed_, domains):
    ex = algos.client_data(n, idx, seed_, domains)
    ex['y'] = (ex['y'] + np.float32(offs[idx])).astype(np.float32)
    return ex
  pop = algos.population(sizes, case.get('seed', 0), data_fn=data_fn)
  thp = systems._hp(2, case.get('epochs', 1), None, 0)
  p0 = algos.nparams(algos.P0)
  ids = [c[0] for c in pop]
  evals, outs, keys = 0, set(), []
  reg_decides = 0

  def avg(p, ex):
    r = ex['x'].astype(np.float64) @ p['w'] + p['b'] - ex['y'].astype(np.float64)
    return float(np.mean(r * r)) + regv(p)
  for rseed in case['rngs']:
    rng = jax.random.PRNGKey(rseed)
    _, center_rng = jax.random.split(rng)
    first = int(jax.random.choice(center_rng, len(pop)))
    ref_params = {}
    for cid, ds, crng in pop:
      ck = jax.random.split(crng, k)
      delta, _ = algos.ref_client_delta(p0, list(ds.shuffle_repeat_batch(thp)), ck[0], algos.RefSGD(lr), 'plain', l2=lam)
      ref_params[cid] = {kk: p0[kk] - delta[kk] for kk in p0}
    for geom in _geoms(case):
      nc = dict(case, rngs=[rseed], geoms=[list(geom)])
      ehp = systems._php(*geom)
      if route == 'model':
        centers = initializer.cluster_params(k, rng, pop, thp, ehp)
      else:
        centers = hc.kmeans_init(k, algos.jparams(), pop, trainer, thp, evaluator, ehp, center_rng)
      require(len(centers) == k, 'number of cluster centres', k, len(centers), case=nc)
      best = {cid: np.inf for cid in ids}
      chosen = []
      for i, c in enumerate(centers):
        cn = algos.nparams({kk: np.asarray(v).tolist() for kk, v in c.items()})
        dist = {cid: max(float(np.max(np.abs(cn[kk] - ref_params[cid][kk]))) for kk in cn) for cid in ids}
        who = min(dist, key=dist.get)
        require(dist[who] <= 1e-4, 'centre %d is not the trained parameters of any client' % i, None, dist, case=nc)
        if i == 0:
          require(who == sorted(ids)[first] or dist[sorted(ids)[first]] <= 1e-4, 'the first centre is not the client drawn with the given key',
                  repr(sorted(ids)[first]), repr(who), case=nc)
        else:
          mx = max(best.values())
          require(best[who] >= mx - 1e-4 * (1 + abs(mx)), 'centre %d is the model of client %r whose best average loss over the '
                  'centres so far (regulariser counted once) is not maximal' % (i, who),
                  {repr(c_): round(v, 6) for c_, v in best.items()}, repr(who), case=nc)
        chosen.append(ids.index(who))
        for cid, ds, _ in pop:
          best[cid] = min(best[cid], avg(ref_params[who], ds.raw_examples))
        if lam and i + 1 < len(centers):
          # would the next choice differ if the regulariser of the centres were left out of the clients' average losses?
          nb = {cid: min(avg(ref_params[ids[j]], ds.raw_examples) - regv(ref_params[ids[j]]) for j in chosen) for cid, ds, _ in pop}
          reg_decides += max(nb, key=nb.get) != max(best, key=best.get)
      outs.add(core.digest(chosen))
      evals += 1
      keys.append(['kmeans', lam, k, sizes, rseed, list(geom), route])
  return {'evals': evals, 'nontrivial': True, 'outcome': sorted(outs), 'keys': keys, 'stats': {'choices_decided_by_the_regulariser': reg_decides}}


SUBS = {'nonfinite_loss': nonfinite_loss, 'kmeans_centers': kmeans_centers, 'reg_sequence': reg_sequence, 'mime_server_grad': mime_server_grad, 'grad_masks': grad_masks, 'avg_loss': avg_loss, 'mime_grads': mime_grads, 'agnostic_domain': agnostic_domain,
        'hyp_losses': hyp_losses}
TIMEOUTS = {k: 1200 for k in SUBS}


# sub-spaces re-executed under other interpreter configurations (mc.core.CONFIGS): {configuration: {sub-space: stride}}
# quick tier: every stride-th planned case, thorough tier: all planned cases
CONFIG_PASSES = {'x64': {'grad_masks': 6, 'avg_loss': 6, 'hyp_losses': 6}, 'x64_late': {'grad_masks': 18, 'avg_loss': 12}}


def plan(ctx):
  th = ctx.tier == 'thorough'
  ctx.rule = ('grad/model_grad: losses {sq, abs, sq*u(rng)} x regulariser {none, l2, l2 with centre} x B in 1..4 x all 2^B '
              'mask patterns x masked content {poison, zeros} x 2 parameter points; dataset level: N in 0..5 (or client '
              'size tuples) x all 18 geometries (batch_size 1..6 x buckets 1..3); distinct = (quantity, loss, reg, data, '
              'mask or geometry)')
  ctx.assumptions += ['losses are finite on padded rows (masking is by multiplication)', 'dataset-level quantities use '
                      'rng-free losses: the per-batch key split makes an rng-dependent loss legitimately geometry dependent']
  s = ctx.seed
  gm = [{'loss': l, 'reg': r, 'B': b, 'pad': k, 'seed': s} for l in ('sq', 'abs', 'sq_rng') for r in ('none', 'l2', 'l2c')
        for b in (1, 2, 3, 4) for k in ('poison', 'zeros') if th or not (k == 'zeros' and b > 2)]
  ctx.pmap('grad_masks', gm, chunk=3)
  regs = ('none', 'l2', 'l2c') if th else ('none', 'l2c')
  ctx.pmap('avg_loss', [{'loss': l, 'reg': r, 'N': n, 'seed': s} for l in ('sq', 'abs') for r in regs for n in range(0, 6)],
           chunk=2)
  tuples = [[0], [3], [5], [2, 0, 3], [1, 4], [0, 0]] if th else [[3], [2, 0, 3], [0, 0]]
  # the same dataset-level quantities through the pmap backend, which reorders clients by their number of batches:
  # client sizes deliberately NOT sorted, more clients than devices and a device count that does not divide them
  ptuples = [[1, 7, 0, 3, 4], [2, 0, 3]] if not th else [[1, 7, 0, 3, 4], [2, 0, 3], [0, 5, 1, 6], [3, 3, 9]]
  bes = ('pmap2',) if not th else ('pmap2', 'pmap3', 'debug')
  ctx.pmap('mime_grads', [{'loss': l, 'reg': r, 'sizes': t, 'seed': s} for l in ('sq', 'abs') for r in regs for t in tuples] +
           [{'loss': 'sq', 'reg': 'l2c', 'sizes': t, 'seed': s, 'backend': be} for be in bes for t in ptuples], chunk=2)
  ctx.pmap('reg_sequence', [{'loss': l, 'N': n, 'seed': s} for l in ('sq', 'abs') for n in (0, 3, 5)], chunk=1)
  ctx.pmap('mime_server_grad', [{'loss': l, 'reg': r, 'sizes': t, 'seed': s} for l in ('sq',) for r in ('none', 'l2', 'l2c')
                                for t in ([3], [2, 0, 3], [0, 0], [5, 1])] +
           [{'loss': 'sq', 'reg': r, 'sizes': t, 'seed': s, 'base': 'mom'} for r in ('none', 'l2c') for t in ([0, 0], [0], [2, 0, 3])], chunk=1)
  ctx.pmap('agnostic_domain', [{'loss': l, 'sizes': t, 'num_domains': nd, 'seed': s} for l in ('sq', 'abs')
                               for t in tuples for nd in (1, 2, 3, 5)] +
           [{'loss': 'sq', 'sizes': t, 'num_domains': 2, 'seed': s, 'reg': r} for r in ('l2', 'l2c') for t in tuples] +
           [{'loss': 'sq', 'sizes': t, 'num_domains': 2, 'seed': s, 'backend': be} for be in bes for t in ptuples], chunk=2)
  ctx.pmap('nonfinite_loss', [{'N': n, 'bad': b, 'kind': kd, 'seed': s} for kd in ('inf', 'nan') for n in (1, 3, 5) for b in (0, n - 1)], chunk=3)
  ctx.pmap('kmeans_centers', [{'lam': lam, 'clusters': k, 'sizes': t, 'epochs': ep, 'rngs': list(range(8 if th else 5)), 'seed': s, 'route': rt,
                              'geoms': [list(g) for g in (GEOMS if th else [(1, 1), (2, 2), (4, 3), (6, 1)])]}
                             for lam, t, ep in ((None, [3, 5, 2, 4, 1], 1), (1.0, [4, 4, 4, 4, 4, 4], 6), (0.5, [3, 5, 2, 4, 1], 6), (1.0, [2, 2, 6, 1], 3))
                             for k in (3, 4) for rt in ('model', 'kmeans_init') if th or rt == 'model' or (k == 4 and lam == 1.0)], chunk=1)
  ctx.pmap('hyp_losses', [{'loss': l, 'reg': r, 'sizes': t, 'seed': s} for l in ('sq', 'abs') for r in regs
                          for t in ([[3], [2, 0, 3], [5, 1]] if not th else tuples)] +
           [{'loss': 'sq', 'reg': r, 'sizes': t, 'seed': s, 'backend': be} for be in bes for r in ('none', 'l2c')
            for t in ptuples], chunk=2)


"""Child interpreter entry point: python -m mc.child <module> <function> <json argument>.

Runs module.function(argument) in a fresh interpreter (whose str/bytes hash salt - PYTHONHASHSEED - is chosen by the
parent) and prints the JSON result on a marked line. Used by the "other process" sub-spaces: results that must be a
function of values only are recomputed under every listed salt and compared with the parent's.
"""
import importlib
import json
import os
import subprocess
import sys

MARK = 'MCCHILD '


def call(module, func, arg, hashseed, timeout=900):
  """Parent side: returns the child's JSON result; raises HarnessError if the child does not deliver one."""
  from mc import core
  env = dict(os.environ, PYTHONHASHSEED=str(hashseed))
  r = subprocess.run([sys.executable, '-m', 'mc.child', module, func, json.dumps(arg)], env=env, capture_output=True,
                     text=True, timeout=timeout)
  lines = [l for l in r.stdout.splitlines() if l.startswith(MARK)]
  if r.returncode != 0 or not lines:
    raise core.HarnessError('child interpreter %s.%s failed (exit %s): %s' % (module, func, r.returncode, r.stderr[-600:]))
  return json.loads(lines[-1][len(MARK):])


if __name__ == '__main__':
  mod = importlib.import_module(sys.argv[1])
  out = getattr(mod, sys.argv[2])(json.loads(sys.argv[3]))
  print(MARK + json.dumps(out))

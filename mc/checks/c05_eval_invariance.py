"""C05 - evaluation is invariant to batching and padding (metric monoid).

E-enum: all example sequences (len <= 4 over a 5-example pool per family) x padding rows/content at
batch level; all compositions into consecutive batches x all batch orders x padding at model level;
all monoid triples.  Oracle = fold of the metric's own single-example statistics (merged with the
boring reference merge in float64).
"""
import itertools

import numpy as np

from mc import core
from mc.core import require, Violation
from mc.ref import metrics_ref as mr

PROPERTY = 'C05'
LEVEL = 'exploration'
MASK = '__mask__'
NINF = '-inf'

CLS_POOL = [
    {'y': 0, 'pred': [2.0, 1.0, 0.0], 'domain_id': 0},
    {'y': 1, 'pred': [1.0, 1.0, 0.0], 'domain_id': 1},
    {'y': 2, 'pred': [0.0, 0.0, 0.0], 'domain_id': 0},
    {'y': 2, 'pred': [-1.0, 0.5, 3.0], 'domain_id': 1},
    {'y': 0, 'pred': [1e3, -1e3, 0.0], 'domain_id': 1},
]
CLS_POISON = {'y': 1, 'pred': [-5.0, 7.0, 7.0], 'domain_id': 1}
SEQ_POOL = [
    {'y': [1, 2, 0], 'pred': [[0., 3., 1.], [0., 1., 2.], [5., 0., 0.]], 'domain_id': 0},
    {'y': [0, 0, 0], 'pred': [[-3e38, 3e38, 1.], [0., 2., 0.], [0., 0., 3.]], 'domain_id': 1},  # masked token, loss overflows
    {'y': [2, 2, 2], 'pred': [[1., 1., 1.], [0., 2., 2.], [0., 0., 3.]], 'domain_id': 1},
    {'y': [1, 0, 2], 'pred': [[4., 0., 1.], [0., 1., 0.], [3., 2., 1.]], 'domain_id': 0},
    {'y': [2, 1, 1], 'pred': [[0., .5, .25], [-1., -1., -2.], [0., 9., 0.]], 'domain_id': 0},
]
SEQ_POISON = {'y': [1, 1, 2], 'pred': [[9., 0., 0.], [0., 0., 9.], [0., 9., 0.]], 'domain_id': 1}
# legal but extreme padded content: finite logits whose float32 statistics overflow (loss = inf, inf - inf inside)
EXTREME = {'cls': {'y': 1, 'pred': [3e38, -3e38, 0.0], 'domain_id': 0},
           'seq': {'y': [1, 2, 1], 'pred': [[3e38, -3e38, 0.], [3e38, 3e38, -3e38], [-3e38, -3e38, 3e38]], 'domain_id': 0}}


def cls_specs():
  return {
      'ce': {'name': 'CrossEntropyLoss'}, 'acc': {'name': 'Accuracy'}, 'top2': {'name': 'TopKAccuracy', 'k': 2},
      'cm': {'name': 'ConfusionMatrix', 'num_classes': 3},
      'pd_acc2': {'name': 'PerDomainMetric', 'base': {'name': 'Accuracy'}, 'num_domains': 2},
      'pd_ce3': {'name': 'PerDomainMetric', 'base': {'name': 'CrossEntropyLoss'}, 'num_domains': 3},
      'pd_cm2': {'name': 'PerDomainMetric', 'base': {'name': 'ConfusionMatrix', 'num_classes': 3}, 'num_domains': 2},
      # per-domain wrappers with the same num_domains around different base metrics whose own field values coincide
      'pd_ce2': {'name': 'PerDomainMetric', 'base': {'name': 'CrossEntropyLoss'}, 'num_domains': 2},
      'pd_acc3': {'name': 'PerDomainMetric', 'base': {'name': 'Accuracy'}, 'num_domains': 3},
  }


def seq_specs():
  lm = [0.0, 0.0, NINF]
  out = {
      'seq_ce': {'name': 'SequenceCrossEntropyLoss'},
      'count': {'name': 'SequenceTokenCount'}, 'nseq': {'name': 'SequenceCount', 'masked_target_values': [0, 2]},
      'trunc': {'name': 'SequenceTruncationRate', 'eos_target_value': 2},
      'len': {'name': 'SequenceLength'},
      'pd_tokacc': {'name': 'PerDomainMetric', 'base': {'name': 'SequenceTokenAccuracy'}, 'num_domains': 2},
      'pd_count': {'name': 'PerDomainMetric', 'base': {'name': 'SequenceTokenCount'}, 'num_domains': 3},
      'pd_nseq': {'name': 'PerDomainMetric', 'base': {'name': 'SequenceCount'}, 'num_domains': 3},
      'pd_len': {'name': 'PerDomainMetric', 'base': {'name': 'SequenceLength'}, 'num_domains': 3},
  }
  for pp in (False, True):
    s = '_pp' if pp else ''
    out['tok_ce' + s] = {'name': 'SequenceTokenCrossEntropyLoss', 'per_position': pp}
    out['tok_acc' + s] = {'name': 'SequenceTokenAccuracy', 'per_position': pp}
    out['tok_acc_lm' + s] = {'name': 'SequenceTokenAccuracy', 'per_position': pp, 'logits_mask': lm,
                             'masked_target_values': [0, 1]}
    # twins that differ in ONE field only (the jitted evaluation is keyed on the metric object's equality / hash)
    out['tok_acc_lm_b' + s] = {'name': 'SequenceTokenAccuracy', 'per_position': pp, 'logits_mask': [NINF, 0.0, 0.0],
                               'masked_target_values': [0, 1]}
    out['tok_top2' + s] = {'name': 'SequenceTokenTopKAccuracy', 'k': 2, 'per_position': pp}
    out['tok_top2_lm' + s] = {'name': 'SequenceTokenTopKAccuracy', 'k': 2, 'per_position': pp, 'logits_mask': [0.0, NINF, 0.0]}
    out['oov' + s] = {'name': 'SequenceTokenOOVRate', 'oov_target_values': [1], 'per_position': pp}
  return out


def seq_pdpp_specs():
  # per-domain wrapper around a per-position base metric (kept apart: see DESIGN.md, finding F19)
  return {'pd_tokacc_pp': {'name': 'PerDomainMetric', 'base': {'name': 'SequenceTokenAccuracy', 'per_position': True},
                           'num_domains': 2}}


FAMILIES = {'cls': (cls_specs, CLS_POOL, CLS_POISON), 'seq': (seq_specs, SEQ_POOL, SEQ_POISON),
            'seq_pdpp': (seq_pdpp_specs, SEQ_POOL, SEQ_POISON)}
_CACHE = {}


def family(name, quick_subset=None):
  """(specs, metrics objects, mock model, pool, poison, single-example stats as float64 tuples)."""
  key = (name, quick_subset)
  if key in _CACHE:
    return _CACHE[key]
  import fedjax
  import jax.numpy as jnp
  fn, pool, poison = FAMILIES[name]
  specs = fn()
  if quick_subset:
    specs = {k: v for k, v in specs.items() if k in quick_subset}
  mets = {k: mr.build(s) for k, s in specs.items()}
  model = fedjax.Model(init=lambda rng: {}, apply_for_train=lambda p, b, r=None: b['pred'],
                       apply_for_eval=lambda p, b: b['pred'],
                       train_loss=lambda b, o: jnp.zeros(len(b['y'])), eval_metrics=mets)
  singles = {}
  for k, m in mets.items():
    singles[k] = [_f64(mr.stat_arrays(m.evaluate_example(_jex(e), jnp.asarray(np.asarray(e['pred'], np.float32)))))
                  for e in pool]
  zeros = {k: _f64(mr.stat_arrays(m.zero())) for k, m in mets.items()}
  _CACHE[key] = (specs, mets, model, pool, poison, singles, zeros)
  return _CACHE[key]


def _evaluator(fam, model):
  import fedjax
  if ('ev', fam) not in _CACHE:
    _CACHE[('ev', fam)] = fedjax.ModelEvaluator(model)
  return _CACHE[('ev', fam)]


def _jex(e):
  import jax.numpy as jnp
  return {'y': jnp.asarray(np.asarray(e['y'], np.int32)), 'domain_id': jnp.asarray(np.int32(e['domain_id']))}


def _f64(st):
  return (st[0],) + tuple(np.asarray(a, np.float64) for a in st[1:])


def fold(singles_k, zero_k, idxs):
  st = zero_k
  for i in idxs:
    st = mr.ref_merge(st, singles_k[i])
  return st


def make_batch(pool, poison, idxs, pad, kind, with_mask=True, layout='tail'):
  """layout: where the masked rows sit - 'tail' (what the library's padding produces), 'front' or 'interleaved'
  (hand-built batches: the statement puts no restriction on the position of masked rows)."""
  rows = [pool[i] for i in idxs]
  n = len(rows)
  pads = []
  if pad:
    if kind == 'zeros':
      z = {'y': np.zeros_like(np.asarray(pool[0]['y'])).tolist(),
           'pred': np.zeros_like(np.asarray(pool[0]['pred'])).tolist(), 'domain_id': 0}
      pads = [z] * pad
    elif kind == 'copy':
      pads = [rows[j % n] if n else poison for j in range(pad)]
    elif kind == 'extreme':
      pads = [EXTREME['seq' if np.asarray(pool[0]['y']).ndim else 'cls']] * pad
    else:
      pads = [poison] * pad
  if layout == 'tail' or not pads:
    allrows, mask = rows + pads, [True] * n + [False] * len(pads)
  elif layout == 'front':
    allrows, mask = pads + rows, [False] * len(pads) + [True] * n
  else:
    allrows, mask = [], []
    pi = 0
    for r in rows:
      if pi < len(pads):
        allrows.append(pads[pi]); mask.append(False); pi += 1
      allrows.append(r); mask.append(True)
    while pi < len(pads):
      allrows.append(pads[pi]); mask.append(False); pi += 1
  rows = allrows
  b = {'y': np.asarray([r['y'] for r in rows], np.int32).reshape((len(rows),) + np.asarray(pool[0]['y']).shape),
       'pred': np.asarray([r['pred'] for r in rows], np.float32).reshape(
           (len(rows),) + np.asarray(pool[0]['pred']).shape),
       'domain_id': np.asarray([r['domain_id'] for r in rows], np.int32)}
  if with_mask:
    b[MASK] = np.asarray(mask, bool)
  return b


def _cmp_result(name, got, want_stat, what, case):
  want = mr.ref_result(want_stat)
  got = np.asarray(got, np.float64)
  if want.shape != got.shape and not np.any(want) and want.ndim < got.ndim:
    # no real example at all: the zero statistic of a per-position metric is a scalar that broadcasts
    want = np.zeros(got.shape)
  require(got.shape == want.shape, '%s: metric %s result shape' % (what, name), list(want.shape), list(got.shape),
          case=case)
  require(bool(np.all(np.isfinite(got))), '%s: metric %s is not finite' % (what, name), want.tolist(), got.tolist(),
          case=case)
  require(bool(np.all(np.abs(got - want) <= 2e-5 + 2e-5 * np.abs(want))),
          '%s: metric %s differs from the fold of single-example statistics' % (what, name), want.tolist(),
          got.tolist(), case=case)


def batch_level(case):
  """All sequences of length n as ONE batch (+ padding): evaluate_model and metrics.evaluate_batch."""
  import fedjax
  import jax.numpy as jnp
  from fedjax.core import metrics
  fam, n, pad, kind = case['family'], case['n'], case['pad'], case['kind']
  specs, mets, model, pool, poison, singles, zeros = family(fam, case.get('subset') and tuple(case['subset']))
  seqs = [case['seq']] if 'seq' in case else itertools.product(range(len(pool)), repeat=n)
  evals = 0
  outs = set()
  for seq in seqs:
    seq = list(seq)
    nc = dict(case, seq=seq)
    with_mask = not (pad == 0 and case.get('nomask'))
    b = make_batch(pool, poison, seq, pad, kind, with_mask, case.get('layout', 'tail'))
    res = fedjax.evaluate_model(model, {}, [b])
    for k in mets:
      _cmp_result(k, res[k], fold(singles[k], zeros[k], seq), 'evaluate_model on one batch', nc)
    for mode in ((['jit'] if case.get('direct') else []) + (['eager'] if case.get('eager') else [])):
      import contextlib
      import jax
      ex = {kk: jnp.asarray(v) for kk, v in b.items() if kk not in ('pred', MASK)}
      for k, m in mets.items():
        # 'eager': op-by-op execution (jax.disable_jit(), what a user debugging a metric runs) - XLA's algebraic
        # rewrites of the fused graph (e.g. multiply-by-mask -> select) do not happen there
        with (jax.disable_jit() if mode == 'eager' else contextlib.nullcontext()):
          st = metrics.evaluate_batch(m, ex, jnp.asarray(b['pred']), jnp.asarray(b[MASK]) if with_mask else None)
        _cmp_result(k, st.result(), fold(singles[k], zeros[k], seq), 'metrics.evaluate_batch', nc)
        got = _f64(mr.stat_arrays(st))
        want = fold(singles[k], zeros[k], seq)
        for g, w in zip(got[1:], want[1:]):
          require(bool(np.all(np.abs(g - w) <= 2e-5 + 2e-5 * np.abs(w))),
                  'metrics.evaluate_batch: statistic of %s differs from the fold' % k, w.tolist(), g.tolist(), case=nc)
    evals += 1
    outs.add(core.digest([np.asarray(res[k]).round(4).tolist() for k in sorted(mets)]))
  return {'evals': evals, 'outcomes': sorted(outs), 'nontrivial': pad > 0 or n > 1,
          'keys': [[fam, n, pad, kind, bool(case.get('nomask')), case.get('layout', 'tail')]]}


def mixed_streams(case):
  """One evaluate_model call over a stream that mixes batches WITHOUT a mask feature (ClientDataset.batch output, hand-made
  batches) and padded batches, in every order, as a list and as a generator; and single batches whose row count is a
  large round number (1024, 2048, 3072 rows) or just beside one."""
  import fedjax
  fam = case['family']
  specs, mets, model, pool, poison, singles, zeros = family(fam)
  evals = 0
  if case['kind'] == 'mixed':
    parts = [('plain', [0, 1, 2]), ('padded', [3, 4]), ('plain', [1]), ('padded', [2, 0, 0])]
    for order in itertools.permutations(range(len(parts))):
      seq, batches = [], []
      for pi in order:
        kind, idxs = parts[pi]
        seq += idxs
        batches.append(make_batch(pool, poison, idxs, 0 if kind == 'plain' else 2, 'poison', with_mask=kind != 'plain'))
      for as_gen in (False, True):
        res = fedjax.evaluate_model(model, {}, (b for b in batches) if as_gen else batches)
        for k in mets:
          _cmp_result(k, res[k], fold(singles[k], zeros[k], seq), 'evaluate_model over plain and padded batches in order %r' % (order,),
                      dict(case, order=list(order)))
        evals += 1
  elif case['kind'] == 'reuse':
    import jax
    from fedjax.core import for_each_client as fec
    seq = [0, 1, 2, 3, 4, 1]
    batches = [make_batch(pool, poison, seq[:3], 1, 'poison'), make_batch(pool, poison, seq[3:], 2, 'poison')]
    keys_before = [sorted(b) for b in batches]
    snaps = [{k: np.array(v, copy=True) for k, v in b.items()} for b in batches]
    ev = _evaluator(fam, model)
    for mode in ('jit', 'disable_jit', 'jit', 'debug_backend', 'jit'):
      if mode == 'disable_jit':
        with jax.disable_jit():
          res = fedjax.evaluate_model(model, {}, batches)
      elif mode == 'debug_backend':
        with fec.for_each_client_backend('debug'):
          dbg = fedjax.ModelEvaluator(model)
          res = dict(dbg.evaluate_global_params({'unused': np.zeros(1, np.float32)}, [(b'c', batches)]))[b'c']
      else:
        res = fedjax.evaluate_model(model, {}, batches)
      for k in mets:
        _cmp_result(k, res[k], fold(singles[k], zeros[k], seq), 'evaluation number under %s of the SAME batch objects' % mode,
                    dict(case, mode=mode))
      require([sorted(b) for b in batches] == keys_before, 'an evaluation (%s) changed the feature set of the caller\'s batch dicts'
              % mode, keys_before, [sorted(b) for b in batches], case=dict(case, mode=mode))
      for b, sn in zip(batches, snaps):
        for k in sn:
          require(np.array_equal(np.asarray(b[k]), sn[k]), 'an evaluation (%s) changed the caller\'s batch arrays' % mode, case=dict(case, mode=mode))
      evals += 1
  else:
    for rows in case['rows']:
      seq = [i % len(pool) for i in range(rows)]
      for pad in (0, 3):
        b = make_batch(pool, poison, seq, pad, 'poison')
        res = fedjax.evaluate_model(model, {}, [b])
        for k in mets:
          _cmp_result(k, res[k], fold(singles[k], zeros[k], seq), 'evaluate_model on one batch of %d rows (+%d padded)' % (rows, pad),
                      dict(case, rows=[rows]))
        evals += 1
  return {'evals': evals, 'nontrivial': True, 'outcome': [fam, case['kind']]}


def narrow_labels(case):
  """Labels stored in a narrow integer type (uint8 / int8 / int16 / uint16: EMNIST-62 and CIFAR-100 labels fit them) with
  enough classes that label * num_classes leaves the type: every partition of the rows into (padded) batches gives the fold
  of the single-example statistics, through evaluate_model, ModelEvaluator and metrics.evaluate_batch."""
  import fedjax
  import jax.numpy as jnp
  from fedjax.core import metrics
  c, ldt = case['C'], case['label_dtype']
  key = ('narrow', c)
  if key not in _CACHE:
    mets = {'cm': metrics.ConfusionMatrix(num_classes=c), 'acc': metrics.Accuracy(), 'ce': metrics.CrossEntropyLoss(),
            'top2': metrics.TopKAccuracy(k=2), 'pd_cm': metrics.PerDomainMetric(metrics.ConfusionMatrix(num_classes=c), 2)}
    model = fedjax.Model(init=lambda rng: {}, apply_for_train=lambda p, b, r=None: b['pred'], apply_for_eval=lambda p, b: b['pred'],
                         train_loss=lambda b, o: jnp.zeros(len(b['y'])), eval_metrics=mets)
    _CACHE[key] = (mets, model, fedjax.ModelEvaluator(model))
  mets, model, ev = _CACHE[key]
  top = min(c - 1, int(np.iinfo(ldt).max))
  targets = sorted({0, 1, c // 2, top})
  rows = []
  for t in targets:
    for pi in sorted({0, c // 3, c - 2, c - 1}):
      pred = np.linspace(-1.0, 1.0, c).astype(np.float32)
      pred[pi] = 3.0
      rows.append({'y': np.asarray(t, ldt), 'pred': pred, 'domain_id': np.asarray((t + pi) % 2, np.int32)})
  singles = {k: [_f64(mr.stat_arrays(m.evaluate_example({'y': r['y'], 'domain_id': r['domain_id']}, jnp.asarray(r['pred'])))) for r in rows]
             for k, m in mets.items()}
  zeros = {k: _f64(mr.stat_arrays(m.zero())) for k, m in mets.items()}
  # the single-example confusion matrix itself: one count at (target, argmax)
  for r, st in zip(rows, singles['cm']):
    want = np.zeros((c, c))
    want[int(r['y']), int(np.argmax(r['pred']))] = 1
    require(np.array_equal(st[1], want), 'confusion matrix of one example with a %s label' % ldt, None, np.argwhere(st[1]).tolist(),
            case=case)
  n = len(rows)
  want = {k: fold(singles[k], zeros[k], range(n)) for k in mets}

  def batch(idxs, pad):
    rs = [rows[i] for i in idxs] + [rows[(idxs[0] + 1) % n]] * pad
    b = {'y': np.asarray([r['y'] for r in rs], ldt), 'pred': np.stack([r['pred'] for r in rs]),
         'domain_id': np.asarray([r['domain_id'] for r in rs], np.int32)}
    if pad or case.get('always_mask'):
      b[MASK] = np.asarray([True] * len(idxs) + [False] * pad, bool)
    return b
  evals = 0
  for name, plan_ in (('one batch', [(list(range(n)), 0)]), ('one padded batch', [(list(range(n)), 3)]),
                      ('batches of 3, last padded', [(list(range(i, min(i + 3, n))), (3 - (min(i + 3, n) - i)) % 3) for i in range(0, n, 3)]),
                      ('single rows in reverse', [([i], 0) for i in reversed(range(n))]),
                      ('halves, second first', [(list(range(n // 2, n)), 1), (list(range(n // 2)), 0)])):
    batches = [batch(i, p) for i, p in plan_]
    nc = dict(case, plan=name)
    res = fedjax.evaluate_model(model, {}, batches)
    got_ev = dict(ev.evaluate_global_params({}, [(b'c', batches)]))[b'c']
    for k in mets:
      _cmp_result(k, res[k], want[k], 'evaluate_model with %s labels (%s)' % (ldt, name), nc)
      _cmp_result(k, got_ev[k], want[k], 'ModelEvaluator with %s labels (%s)' % (ldt, name), nc)
    evals += 2
  b = batch(list(range(n)), 2)
  for k, m in mets.items():
    st = metrics.evaluate_batch(m, {'y': jnp.asarray(b['y']), 'domain_id': jnp.asarray(b['domain_id'])}, jnp.asarray(b['pred']), jnp.asarray(b[MASK]))
    _cmp_result(k, st.result(), want[k], 'metrics.evaluate_batch with %s labels' % ldt, case)
    evals += 1
  return {'evals': evals, 'nontrivial': True, 'outcome': [c, ldt]}


def many_batches(case):
  """One evaluate_model / ModelEvaluator call over MANY batches (counts around powers of two and odd counts): the result
  is the fold over all of them, whatever strategy merges the per-batch statistics."""
  import fedjax
  fam = case['family']
  specs, mets, model, pool, poison, singles, zeros = family(fam)
  evals = 0
  for nb in case['counts']:
    seq, batches = [], []
    for j in range(nb):
      idxs = [(j * 2) % len(pool), (j * 2 + 1 + j // 7) % len(pool)][:1 + (j % 3 != 0)]
      seq += idxs
      batches.append(make_batch(pool, poison, idxs, 2 - len(idxs), 'poison'))
    want = {k: fold(singles[k], zeros[k], seq) for k in mets}
    nc = dict(case, counts=[nb])
    res = fedjax.evaluate_model(model, {}, iter(batches))
    for k in mets:
      _cmp_result(k, res[k], want[k], 'evaluate_model over %d batches' % nb, nc)
    if case.get('evaluator'):
      got = dict(_evaluator(fam, model).evaluate_global_params({}, [(b'c', batches)]))[b'c']
      for k in mets:
        _cmp_result(k, got[k], want[k], 'ModelEvaluator over %d batches' % nb, nc)
    evals += 1
  return {'evals': evals, 'nontrivial': True, 'outcome': [fam, case['counts']]}


def dataset_routes(case):
  """The batches come from the library's own batching of real datasets: one ClientDataset.padded_batch view whose preprocessing
  fn builds a FRESH dict of the model's features (it forwards nothing else it was handed), and padded_batch_client_datasets
  over several clients whose example dicts list the same features in different orders. Every (batch size, buckets) geometry
  gives the fold of the single-example statistics."""
  import fedjax
  from fedjax.core import client_datasets as cds
  fam, seq = case['family'], case['seq']
  specs, mets, model, pool, poison, singles, zeros = family(fam)
  want = {k: fold(singles[k], zeros[k], seq) for k in mets}
  rows = [pool[i] for i in seq]
  cols = {'y': np.asarray([r['y'] for r in rows], np.int32).reshape((len(rows),) + np.asarray(pool[0]['y']).shape),
          'pred': np.asarray([r['pred'] for r in rows], np.float32).reshape((len(rows),) + np.asarray(pool[0]['pred']).shape),
          'domain_id': np.asarray([r['domain_id'] for r in rows], np.int32)}

  def select(x):
    return {'y': x['y'], 'pred': x['pred'], 'domain_id': x['domain_id']}
  evals = 0
  for bs in (1, 2, 3, 4, 8):
    for buckets in (1, 2, 3):
      nc = dict(case, geom=[bs, buckets])
      ds = fedjax.ClientDataset(dict(cols, extra=np.arange(len(rows))), cds.BatchPreprocessor([select]))
      res = fedjax.evaluate_model(model, {}, ds.padded_batch(batch_size=bs, num_batch_size_buckets=buckets))
      for k in mets:
        _cmp_result(k, res[k], want[k], 'evaluate_model over dataset.padded_batch (selecting preprocessor)', nc)
      got = dict(_evaluator(fam, model).evaluate_global_params({}, [(b'c', ds.padded_batch(batch_size=bs, num_batch_size_buckets=buckets))]))[b'c']
      for k in mets:
        _cmp_result(k, got[k], want[k], 'ModelEvaluator over dataset.padded_batch (selecting preprocessor)', nc)
      # the same rows split over three clients; the second one lists its features in another order
      cut1, cut2 = len(rows) // 3, (2 * len(rows) + 2) // 3
      parts = []
      for j, (a, b) in enumerate(((0, cut1), (cut1, cut2), (cut2, len(rows)))):
        d = {kk: v[a:b] for kk, v in cols.items()}
        if j == 1:
          d = {kk: d[kk] for kk in ('domain_id', 'pred', 'y')}
        parts.append(fedjax.ClientDataset(d))
      res = fedjax.evaluate_model(model, {}, fedjax.padded_batch_client_datasets(parts, batch_size=bs, num_batch_size_buckets=buckets))
      for k in mets:
        _cmp_result(k, res[k], want[k], 'evaluate_model over padded_batch_client_datasets (feature order differs between clients)', nc)
      evals += 3
  return {'evals': evals, 'nontrivial': True, 'outcome': [fam, seq]}


def compositions(n):
  """All ways to cut range(n) into consecutive non-empty parts."""
  for cuts in itertools.product((0, 1), repeat=n - 1):
    parts, cur = [], [0]
    for i, c in enumerate(cuts):
      if c:
        parts.append(cur)
        cur = [i + 1]
      else:
        cur.append(i + 1)
    parts.append(cur)
    yield parts


def partition_level(case):
  """One example sequence: every composition into batches x every batch order x padding placement."""
  import fedjax
  fam, seq = case['family'], case['seq']
  specs, mets, model, pool, poison, singles, zeros = family(fam)
  want = {k: fold(singles[k], zeros[k], seq) for k in mets}
  evals = 0
  plans = []
  for parts in compositions(len(seq)):
    for order in itertools.permutations(range(len(parts))):
      for pad, kind in case['pads']:
        plans.append((parts, list(order), pad, kind))
  if 'plan' in case:
    plans = [tuple(case['plan'])]
  clients = []
  for parts, order, pad, kind in plans:
    nc = dict(case, plan=[parts, order, pad, kind])
    batches = []
    for j, pi in enumerate(order):
      idxs = [seq[t] for t in parts[pi]]
      # padding goes to the batch at position (pad mod #batches): exercises padded batches in the middle
      p = pad if (pad and j == (pad + len(parts)) % len(parts)) else 0
      batches.append(make_batch(pool, poison, idxs, p, kind, True))
    res = fedjax.evaluate_model(model, {}, iter(batches))
    for k in mets:
      _cmp_result(k, res[k], want[k], 'evaluate_model over batches', nc)
    clients.append((('c%d' % len(clients)).encode(), batches, nc))
    evals += 1
  # ModelEvaluator: every plan is one client of a single for_each_client call
  if case.get('evaluator', True) and len(clients) > 0:
    ev = _evaluator(fam, model)
    got = dict(ev.evaluate_global_params({}, [(cid, b) for cid, b, _ in clients]))
    require(set(got) == {cid for cid, _, _ in clients}, 'ModelEvaluator: result ids differ from input ids')
    for cid, _, nc in clients:
      for k in mets:
        _cmp_result(k, got[cid][k], want[k], 'ModelEvaluator.evaluate_global_params', nc)
    if case.get('per_client'):
      got = dict(ev.evaluate_per_client_params([(cid, b, {}) for cid, b, _ in clients[:8]]))
      for cid, _, nc in clients[:8]:
        for k in mets:
          _cmp_result(k, got[cid][k], want[k], 'ModelEvaluator.evaluate_per_client_params', nc)
    evals += len(clients)
  return {'evals': evals, 'nontrivial': len(seq) > 1, 'outcome': [np.asarray(mr.ref_result(want[k])).round(4).tolist()
                                                                 for k in sorted(want)]}


def monoid(case):
  """Associativity, commutativity, identity on all triples of pool statistics + zero."""
  import jax.numpy as jnp
  fam = case['family']
  specs, mets, model, pool, poison, singles, zeros = family(fam)
  evals = 0
  for k, m in mets.items():
    if 'metric' in case and case['metric'] != k:
      continue
    stats = [m.zero()] + [m.evaluate_example(_jex(e), jnp.asarray(np.asarray(e['pred'], np.float32))) for e in pool]
    arr = lambda s: _f64(mr.stat_arrays(s))

    def eq(a, b, what, idx):
      for u, v in zip(arr(a)[1:], arr(b)[1:]):
        require(u.shape == v.shape and bool(np.all(np.abs(u - v) <= 1e-5 + 1e-5 * np.abs(v))),
                'metric %s: %s fails' % (k, what), v.tolist(), u.tolist(), case=dict(case, metric=k, triple=idx))
    z = stats[0]
    for i, a in enumerate(stats):
      eq(a.merge(z), a, 'right identity', [i])
      eq(z.merge(a), a, 'left identity', [i])
      require(bool(np.all(np.isfinite(np.asarray(a.result())))), 'result not finite')
      for j, b in enumerate(stats):
        eq(a.merge(b), b.merge(a), 'commutativity', [i, j])
        # agreement with the reference merge
        want = mr.ref_merge(arr(a), arr(b))
        for u, v in zip(arr(a.merge(b))[1:], want[1:]):
          require(bool(np.all(np.abs(u - v) <= 1e-5 + 1e-5 * np.abs(v))), 'metric %s: merge differs from the '
                  'reference merge' % k, v.tolist(), u.tolist(), case=dict(case, metric=k, triple=[i, j]))
        for l, c in enumerate(stats):
          eq(a.merge(b).merge(c), a.merge(b.merge(c)), 'associativity', [i, j, l])
          evals += 1
  return {'evals': evals, 'nontrivial': True, 'outcome': fam}


def empty(case):
  """Empty input and fully masked batches give the zero statistic's result (0), never NaN."""
  import fedjax
  fam = case['family']
  specs, mets, model, pool, poison, singles, zeros = family(fam)
  kinds = {
      'no_batches': [],
      'one_fully_masked': [make_batch(pool, poison, [], 2, case['kind'])],
      'two_fully_masked': [make_batch(pool, poison, [], 1, case['kind']), make_batch(pool, poison, [], 3, case['kind'])],
  }
  for nm, batches in kinds.items():
    res = fedjax.evaluate_model(model, {}, batches)
    for k in mets:
      got = np.asarray(res[k], np.float64)
      require(bool(np.all(got == 0)), '%s: metric %s is %s instead of 0' % (nm, k, got.tolist()), 0, got.tolist(),
              case=dict(case, which=nm))
  ev = _evaluator(fam, model)
  got = dict(ev.evaluate_global_params({}, [(b'e', []), (b'm', kinds['one_fully_masked']),
                                            (b'r', [make_batch(pool, poison, [0], 1, case['kind'])])]))
  for cid in (b'e', b'm'):
    for k in mets:
      g = np.asarray(got[cid][k], np.float64)
      require(bool(np.all(g == 0)), 'ModelEvaluator client %r: metric %s is %s instead of 0' % (cid, k, g.tolist()))
  for k in mets:
    _cmp_result(k, got[b'r'][k], singles[k][0], 'ModelEvaluator next to empty clients', case)
  return {'evals': 4, 'nontrivial': True, 'outcome': fam}


def model_replace(case):
  """History on the jit cache: model A, then A.replace(eval_metrics=<same names, other configuration>), then A again, on
  batches of identical shapes - every evaluation must follow ITS model's metric objects."""
  import fedjax
  fam = case['family']
  specs, mets, model, pool, poison, singles, zeros = family(fam)
  def other(sp):
    """Same metric class / statistic shapes, different configuration (so that only the metric OBJECTS differ)."""
    sp2 = dict(sp)
    if sp2['name'] == 'PerDomainMetric':
      return dict(sp2, base=other(sp2['base']))
    if 'k' in sp2:
      return dict(sp2, k=sp2['k'] - 1)
    if sp2['name'].startswith('Sequence'):
      mv = sp2.get('masked_target_values', [0])
      return dict(sp2, masked_target_values=sorted(set(mv) | {2}) if 2 not in mv else [0])
    if sp2['name'] == 'Accuracy':
      return {'name': 'TopKAccuracy', 'k': 2}
    if sp2['name'] == 'CrossEntropyLoss':
      return {'name': 'Accuracy'}
    return sp2  # ConfusionMatrix: no shape-preserving alternative
  alt = {k: other(sp) for k, sp in specs.items()}
  mets_b = {k: mr.build(sp) for k, sp in alt.items()}
  model_b = model.replace(eval_metrics=mets_b)
  import jax.numpy as jnp
  singles_b = {k: [_f64(mr.stat_arrays(m.evaluate_example(_jex(e), jnp.asarray(np.asarray(e['pred'], np.float32))))) for e in pool]
               for k, m in mets_b.items()}
  zeros_b = {k: _f64(mr.stat_arrays(m.zero())) for k, m in mets_b.items()}
  evals = 0
  for seq in ([0, 1, 2], [3, 4], [1, 1, 4, 0]):
    batches = [make_batch(pool, poison, seq[:2], 1, 'poison'), make_batch(pool, poison, seq[2:], 3 - len(seq[2:]), 'poison')]
    for which, mdl, sg, zr, ms in (('A', model, singles, zeros, mets), ('B', model_b, singles_b, zeros_b, mets_b),
                                   ('A again', model, singles, zeros, mets)):
      res = fedjax.evaluate_model(mdl, {}, batches)
      for k in ms:
        _cmp_result(k, res[k], fold(sg[k], zr[k], seq), 'evaluate_model(model %s)' % which, dict(case, seq=seq, model=which))
      evals += 1
  return {'evals': evals, 'nontrivial': True, 'outcome': fam}


def pmap_evaluator(case):
  """ModelEvaluator built on the pmap backend; every client's batches have the same padded shape, real rows are spread so
  that the order of clients by number of real examples differs from their order by number of batches."""
  import fedjax
  import jax
  from fedjax.core import for_each_client as fec
  fam, ndev = case['family'], case['devices']
  specs, mets, model, pool, poison, singles, zeros = family(fam)
  key = ('pmap_ev', fam, ndev)
  if key not in _CACHE:
    with fec.for_each_client_backend(fec.ForEachClientPmapBackend(jax.local_devices()[:ndev])):
      _CACHE[key] = fedjax.ModelEvaluator(model)
  ev = _CACHE[key]
  S = 3
  layouts = {
      'dense2': [[0, 1, 2], [3, 4, 0]],                 # 6 real rows in 2 full batches
      'sparse3': [[0], [1, 2], [3]],                    # 4 real rows spread over 3 batches
      'sparse4': [[4], [], [0], [1]],                   # 3 real rows over 4 batches, one batch fully masked
      'one': [[2, 2]],
      'empty': [],
  }
  orders = [case['order']] if 'order' in case else [['dense2', 'sparse3', 'sparse4', 'one', 'empty'],
                                                    ['sparse4', 'empty', 'dense2', 'one', 'sparse3'],
                                                    ['one', 'dense2', 'sparse3']]
  evals = 0
  for order in orders:
    nc = dict(case, order=order)
    clients = []
    for nm in order:
      bs = []
      for j, idxs in enumerate(layouts[nm]):
        b = make_batch(pool, poison, idxs, S - len(idxs), 'poison', True, 'front' if j % 2 else 'tail')
        bs.append(b)
      clients.append((nm.encode(), bs))
    import jax.numpy as jnp
    got = dict(ev.evaluate_global_params({'unused': jnp.zeros((1,))}, clients))
    require(set(got) == {c for c, _ in clients}, 'ModelEvaluator(pmap): result ids differ from the clients', case=nc)
    for nm in order:
      seq = [i for idxs in layouts[nm] for i in idxs]
      for k in mets:
        _cmp_result(k, got[nm.encode()][k], fold(singles[k], zeros[k], seq), 'ModelEvaluator on the pmap backend, client %s'
                    % nm, nc)
    evals += 1
  return {'evals': evals, 'nontrivial': True, 'outcome': [fam, ndev]}


SUBS = {'dataset_routes': dataset_routes, 'narrow_labels': narrow_labels, 'many_batches': many_batches, 'mixed_streams': mixed_streams, 'model_replace': model_replace, 'pmap_evaluator': pmap_evaluator, 'batch_level': batch_level, 'partition_level': partition_level, 'monoid': monoid, 'empty': empty}
TIMEOUTS = {k: 900 for k in SUBS}


# sub-spaces re-executed under other interpreter configurations (mc.core.CONFIGS): {configuration: {sub-space: stride}}
# quick tier: every stride-th planned case, thorough tier: all planned cases
CONFIG_PASSES = {'x64': {'batch_level': 8, 'monoid': 5}}


def plan(ctx):
  th = ctx.tier == 'thorough'
  ctx.rule = ('batch level: all example sequences of length <=%d over a 5-example pool per family, as one batch, x '
              'padding rows {0,1,2} x padded content {zeros, copy of a real row, distinct in-domain poison row, finite rows whose statistics overflow}; model '
              'level: sequences of length <=%d x all compositions into consecutive batches x all batch orders x padding; '
              'monoid: all triples of pool statistics + zero for every metric; distinct = case tuple; non-trivial = '
              'more than one example or at least one padded row' % (4, 4 if th else 3))
  ctx.assumptions += ['oracle = the metric\'s own single-example statistics merged by the reference merge in float64 '
                      '(tolerance 2e-5)', 'metric objects: 7 classification + 17 sequence variants incl. per-position, '
                      'per-domain and confusion matrix']
  pads = [(0, 'zeros'), (1, 'zeros'), (1, 'copy'), (2, 'poison'), (2, 'copy'), (2, 'zeros')]
  bl = []
  for fam in ('cls', 'seq'):
    for n in range(0, 5):
      for pad, kind in pads:
        if n == 0 and pad == 0:
          continue
        if not th and n == 4 and (pad, kind) not in ((0, 'zeros'), (2, 'poison')):
          continue
        bl.append({'family': fam, 'n': n, 'pad': pad, 'kind': kind, 'direct': n <= (3 if th else 2) and pad <= 1})
      bl.append({'family': fam, 'n': max(n, 1), 'pad': 0, 'kind': 'zeros', 'nomask': True})
      if n <= 3:
        bl.append({'family': fam, 'n': n, 'pad': 1 + n % 2, 'kind': 'extreme', 'direct': n <= 2, 'eager': n <= (2 if th else 1)})
      if 1 <= n <= 3:
        for layout in ('front', 'interleaved'):
          bl.append({'family': fam, 'n': n, 'pad': 2 if n > 1 else 1, 'kind': 'poison', 'layout': layout})
  bl += [{'family': 'seq_pdpp', 'n': n, 'pad': pad, 'kind': 'poison'} for n in (1, 2) for pad in (0, 1)]
  ctx.pmap('batch_level', bl, chunk=1)
  pl = []
  ppads = [(0, 'zeros'), (1, 'poison'), (2, 'copy')] if th else [(0, 'zeros'), (1, 'poison')]
  for fam in ('cls', 'seq'):
    for n in (1, 2, 3):
      for seq in itertools.product(range(5), repeat=n):
        if not th and n == 3 and len(set(seq)) < 2:
          continue
        pl.append({'family': fam, 'seq': list(seq), 'pads': ppads, 'per_client': seq[0] == 0})
    if th:
      for seq in itertools.product((0, 1, 3), repeat=4):
        pl.append({'family': fam, 'seq': list(seq), 'pads': [(0, 'zeros'), (2, 'poison')], 'evaluator': seq[0] == 1})
  ctx.pmap('partition_level', pl, chunk=8)
  ctx.pmap('mixed_streams', [{'family': f, 'kind': k} for f in ('cls', 'seq') for k in ('mixed', 'reuse')] +
           [{'family': f, 'kind': 'big', 'rows': r} for f in ('cls', 'seq') for r in ([1023, 1024, 1025], [2048], [3072, 4095]) if th or r != [3072, 4095]],
           chunk=1)
  ctx.pmap('dataset_routes', [{'family': f, 'seq': sq} for f in ('cls', 'seq') for sq in ([0, 1, 2, 3, 4], [3, 1], [2], [4, 4, 0, 1, 3, 2, 0])], chunk=2)
  ctx.pmap('many_batches', [{'family': f, 'counts': cs, 'evaluator': cs[0] < 200} for f in ('cls', 'seq')
                            for cs in ([127, 129, 150], [255, 257, 300], [17, 31, 33, 63, 65, 100]) + (([511, 513, 1000], [128, 130, 256]) if th else ())], chunk=1)
  ctx.pmap('narrow_labels', [{'C': c, 'label_dtype': d} for c in (3, 20, 62, 130) for d in ('uint8', 'int8', 'int16', 'uint16', 'int32')
                             if c - 1 <= np.iinfo(d).max], chunk=2)
  ctx.pmap('monoid', [{'family': f, 'metric': k} for f in ('cls', 'seq') for k in FAMILIES[f][0]()], chunk=2)
  ctx.pmap('model_replace', [{'family': f} for f in ('cls', 'seq')], chunk=1)
  ctx.pmap('pmap_evaluator', [{'family': f, 'devices': d} for f in ('cls', 'seq') for d in ((2, 3, 4) if th else (2, 3))], chunk=1)
  ctx.run('empty', [{'family': f, 'kind': k} for f in ('cls', 'seq') for k in ('zeros', 'poison')])

"""C01 - a federated-averaging round equals its mathematical definition.

E-enum + E-graph, four sub-spaces each enumerated completely:
  A  all client populations (1..3 clients, sizes {0,1,2,3,5}) x all client orders (weighting, zero weight,
     order independence, diagnostics), SGD/SGD, one round;
  B  fixed populations x every (batch_size, num_epochs, num_steps, drop_remainder, seed) combination;
  C  3x3 optimizer pairs x all cohort histories up to a depth (server optimizer state carried over);
  D  populations of <=2 clients x all backends (jit, debug, pmap on 1,2,3 devices).
Oracle: float64 reference round (mc/algos.py).
"""
import itertools

import numpy as np

from mc import algos, core
from mc.core import require, Violation

PROPERTY = 'C01'
LEVEL = 'exploration'
_CACHE = {}
SIZES = [0, 1, 2, 3, 5]


def hp(bs=2, epochs=1, steps=None, drop=False, seed=0):
  import fedjax
  return fedjax.ShuffleRepeatBatchHParams(batch_size=bs, num_epochs=epochs, num_steps=steps, drop_remainder=drop,
                                          seed=seed)


def algorithm(copt, sopt, lr_c, lr_s, hparams_key, backend='jit', loss_mode='rng'):
  """Real FedAvg instance + reference optimizers, cached per process."""
  import fedjax
  import jax
  from fedjax.algorithms import fed_avg
  from fedjax.core import for_each_client as fec
  key = ('alg', copt, sopt, lr_c, lr_s, hparams_key, backend, loss_mode)
  if key in _CACHE:
    return _CACHE[key]
  c_opt, c_ref = algos.make_opt(copt, lr_c)
  s_opt, s_ref = algos.make_opt(sopt, lr_s)
  h = hp(*hparams_key)
  be = backend
  if backend.startswith('pmap'):
    be = fec.ForEachClientPmapBackend(jax.local_devices()[:int(backend[4:])])
  with fec.for_each_client_backend(be):
    alg = fed_avg.federated_averaging(fedjax.grad(algos.make_loss(loss_mode)), c_opt, s_opt, h)
  _CACHE[key] = (alg, c_ref, s_ref, h)
  return _CACHE[key]


def check_round(alg, c_ref, s_ref, h, state, ref_p, ref_s, cohort, what, nc, loss_mode='rng', rtol=1e-4, atol=1e-5):
  """Runs one real round and one reference round; returns (new state, new ref params, new ref opt state)."""
  new_state, diag = alg.apply(state, cohort)
  want_p, want_s, norms = algos.ref_fedavg_round(ref_p, ref_s, cohort, h, c_ref, s_ref, loss_mode)
  got = {k: np.asarray(v, np.float64) for k, v in new_state.params.items()}
  require(all(np.all(np.isfinite(v)) for v in got.values()), what + ': server parameters are not finite', algos.plist(want_p),
          algos.plist(got), case=nc)
  require(algos.params_close(got, want_p, rtol=rtol, atol=atol), what + ': server parameters differ from server_opt(sum n_i delta_i / sum n_i)',
          algos.plist(want_p), algos.plist(got), case=nc)
  ids = [c[0] for c in cohort]
  require(sorted(diag.keys()) == sorted(ids) and len(diag) == len(set(ids)), what + ': diagnostics entries differ from the '
          'set of participating clients', sorted(map(repr, ids)), sorted(map(repr, diag)), case=nc)
  for cid in ids:
    dn = float(np.asarray(diag[cid]['delta_l2_norm']))
    require(abs(dn - norms[cid]) <= 1e-4 * (1 + norms[cid]), what + ': diagnostics of client %r' % cid, norms[cid], dn,
            case=nc)
  return new_state, want_p, want_s


def orders(case):
  """Sub-space A (+D when case['backend'] is given): one population, all orders."""
  sizes = case['sizes']
  backend = case.get('backend', 'jit')
  alg, c_ref, s_ref, h = algorithm('sgd', 'sgd', 0.125, 0.5, (2, 1, None, False, 0), backend)
  f64 = bool(case.get('f64'))   # only under the x64 configuration: float64 parameters and data, compared at 1e-10
  pop = algos.population(sizes, case.get('seed', 0), typed_keys=bool(case.get('typed_keys')),
                         data_fn=(lambda n, i, sd, dm: algos.client_data(n, i, sd, dm, np.float64)) if f64 else None)
  p0 = algos.nparams(algos.P0)
  perms = [case['order']] if 'order' in case else list(itertools.permutations(range(len(sizes))))
  if f64:
    perms = perms[:2]
  base = None
  for perm in perms:
    nc = dict(case, order=list(perm))
    cohort = [pop[i] for i in perm]
    state = alg.init(algos.jparams(dtype=np.float64 if f64 else np.float32))
    what = 'round'
    if case.get('abort_first') and algos.aborted_round(alg, state, cohort):
      what = 'retry after a round that aborted at its last client'
    tol = dict(rtol=1e-10, atol=1e-11) if f64 else {}
    if f64:
      require(all(np.asarray(v).dtype == np.float64 for v in state.params.values()), 'harness: x64 is not in effect')
    new_state, want_p, _ = check_round(alg, c_ref, s_ref, h, state, p0, s_ref.init(p0), cohort, what, nc, **tol)
    if f64:
      require(all(np.asarray(v).dtype == np.float64 for v in new_state.params.values()), 'float64 server parameters came '
              'back in another dtype', 'float64', [str(np.asarray(v).dtype) for v in new_state.params.values()], case=nc)
    got = {k: np.asarray(v, np.float64) for k, v in new_state.params.items()}
    if sum(sizes) == 0:
      for k in got:
        require(np.array_equal(np.asarray(new_state.params[k]), np.asarray(algos.jparams()[k])),
                'a round that saw no examples changed the parameters under plain SGD', algos.plist(p0), algos.plist(got),
                case=nc)
    if base is None:
      base = got
    require(algos.params_close(got, base, rtol=1e-5, atol=1e-6), 'result depends on the order in which clients are listed',
            algos.plist(base), algos.plist(got), case=nc)
  return {'evals': len(perms), 'nontrivial': 0 in sizes or len(set(sizes)) > 1, 'outcome': algos.plist(base),
          'keys': [[sizes, backend, i] for i in range(len(perms))]}


def batching(case):
  """Sub-space B: one population x one batching combination."""
  sizes = case['sizes']
  key = (case['B'], case['epochs'], case['steps'], case['drop'], case['hseed'])
  alg, c_ref, s_ref, h = algorithm('sgd', 'sgd', 0.125, 0.5, key, case.get('backend', 'jit'))
  # pre: client datasets with a batch-LEVEL preprocessor (features centred on the mean of the batch they are in): the client's
  # batch stream is what its dataset yields batch by batch, whatever the algorithm does around it
  pop = algos.population(sizes, case.get('seed', 0), batch_level_pre=bool(case.get('pre')))
  p0 = algos.nparams(algos.P0)
  state = alg.init(algos.jparams())
  new_state, want_p, _ = check_round(alg, c_ref, s_ref, h, state, p0, s_ref.init(p0), pop, 'round', case)
  steps = [len(list(ds.shuffle_repeat_batch(h))) for _, ds, _ in pop]
  return {'evals': 1, 'nontrivial': any(n % case['B'] for n in sizes), 'outcome': [steps, algos.plist(want_p)]}


# E: a round in which no client at all took part (the server optimizer still takes its step on a zero update)
COHORTS = {'A': [0], 'B': [1], 'AB': [0, 1], 'AC': [0, 2], 'BA': [1, 0], 'C': [2], 'E': []}


def histories(case):
  """Sub-space C: one optimizer pair; DFS over all cohort histories up to the depth bound.

  The real state after a history is computed once and shared by its extensions (apply is pure: C10);
  the reference is stepped in lock-step and compared after EVERY round.
  """
  copt, sopt, depth = case['copt'], case['sopt'], case['depth']
  alg, c_ref, s_ref, h = algorithm(copt, sopt, 0.125, 0.5, (2, 2, None, False, 1), 'jit')
  pop = algos.population([2, 3, 0], case.get('seed', 0))
  p0 = algos.nparams(algos.P0)
  stats = {'states': 0, 'transitions': 0}
  outs = set()

  def rec(hist, state, ref_p, ref_s):
    stats['states'] += 1
    if len(hist) >= depth:  # noqa: closure reads the current value of depth
      return
    for name, idxs in COHORTS.items():
      nc = dict(case, history=hist + [name])
      if 'history' in case and case['history'][:len(hist) + 1] != hist + [name]:
        continue
      cohort = [pop[i] for i in idxs]
      # Adam divides by sqrt(v)+1e-8: float32 rounding is amplified and accumulates along a history (the reference is
      # stepped independently in float64), so the tolerance is one order wider there; seeded defects move results by >= 1e-2
      tol = (1e-3, 1e-4) if 'adam' in (copt, sopt) else (1e-4, 1e-5)
      ns, rp, rs = check_round(alg, c_ref, s_ref, h, state, ref_p, ref_s, cohort, 'round %d' % (len(hist) + 1), nc,
                               rtol=tol[0], atol=tol[1])
      stats['transitions'] += 1
      outs.add(core.digest(algos.plist(rp)))
      rec(hist + [name], ns, rp, rs)
  rec([], alg.init(algos.jparams()), p0, s_ref.init(p0))
  if 'history' not in case:
    # second root (other initial parameters) served by the same long-lived algorithm object
    p1 = {'w': [-1.0, 0.75], 'b': -0.25}
    depth = min(depth, 2)
    rec([], alg.init(algos.jparams(p1)), algos.nparams(p1), s_ref.init(algos.nparams(p1)))
  return {'evals': stats['transitions'], 'states': stats['states'], 'transitions': stats['transitions'],
          'traces': stats['transitions'], 'outcomes': sorted(outs), 'nontrivial': True,
          'keys': [[copt, sopt, i] for i in range(stats['transitions'])]}


SUBS = {'orders': orders, 'batching': batching, 'histories': histories}
TIMEOUTS = {'orders': 600, 'batching': 120, 'histories': 2400}


# sub-spaces re-executed under other interpreter configurations (mc.core.CONFIGS): {configuration: {sub-space: stride}}
# quick tier: every stride-th planned case, thorough tier: all planned cases
CONFIG_PASSES = {'x64': {'orders': 6, 'batching': 8}, 'rbg': {'orders': 12}}


def config_cases(cfg, sub, ctx):
  if cfg == 'x64' and sub == 'orders':
    return [{'sizes': p, 'seed': ctx.seed, 'backend': b, 'f64': True} for b in ('jit', 'pmap2')
            for p in ([3, 5, 7, 0, 2], [2, 3], [0, 5])]
  return []


def plan(ctx):
  th = ctx.tier == 'thorough'
  ctx.rule = ('A: every population of 1..3 clients with sizes in {0,1,2,3,5} x every order; B: populations {(3),(0,5),(2,0,3)} x '
              'batch_size {1,2,3} x (num_epochs,num_steps) in {None,1,2}x{None,0,1,3} minus (None,None) x drop_remainder x '
              'seed {0,1}; C: optimizer pairs {sgd,momentum,adam}^2 x all cohort histories up to depth %d over 6 cohorts of '
              'population (2,3,0); D: populations of <=2 clients x {jit,debug,pmap1,pmap2,pmap3}; distinct = case tuple; '
              'non-trivial = empty client / unequal sizes / size not divisible by batch_size' % (4 if th else 2))
  ctx.assumptions += ['3-parameter regression model, loss (x.w+b-y)^2 * (uniform(rng)+0.5) so that key handling is observable',
                      'the seeded batch stream itself is decided by C04; float32 vs float64 at rtol 1e-4']
  s = ctx.seed
  pops = [list(p) for n in (1, 2, 3) for p in itertools.product(SIZES, repeat=n)]
  if not th:
    pops = [p for p in pops if len(p) <= 2 or (0 in p and len(set(p)) > 1) or p in ([5, 3, 2], [1, 1, 1], [0, 0, 0])]
  ctx.pmap('orders', [{'sizes': p, 'seed': s, 'abort_first': len(p) >= 2 and sum(1 for x in p if x) >= 2 and sum(p) % 2 == 1}
                      for p in pops], chunk=6)
  bc = []
  for sizes in ([3], [0, 5], [2, 0, 3]):
    for b in (1, 2, 3):
      for ep, st in itertools.product((None, 1, 2), (None, 0, 1, 3)):
        if ep is None and st is None:
          continue
        for drop in (False, True):
          for hs in ((0, 1) if th else (0,)):
            bc.append({'sizes': sizes, 'B': b, 'epochs': ep, 'steps': st, 'drop': drop, 'hseed': hs, 'seed': s})
  # the same combinations over datasets with a batch-level preprocessor, and through the pmap backend with empty clients
  # listed first / in the middle (their batch streams are empty whatever num_steps says)
  extra = [dict(c, pre=True) for c in bc if c['sizes'] != [3] and (th or c['B'] != 1)]
  for sizes in ([0, 5], [0, 3, 0, 2], [2, 0, 3], [0, 0, 4, 1, 3]):
    for be in (('pmap2', 'pmap3') if th else ('pmap2',)):
      for ep, st in itertools.product((None, 1, 2), (None, 0, 1, 3)):
        if ep is None and st is None:
          continue
        for drop in ((False, True) if th else (False,)):
          extra.append({'sizes': sizes, 'B': 2, 'epochs': ep, 'steps': st, 'drop': drop, 'hseed': 0, 'seed': s, 'backend': be})
  ctx.pmap('batching', bc + extra, chunk=12)
  ctx.pmap('histories', [{'copt': c, 'sopt': so, 'depth': 4 if th else 2, 'seed': s}
                         for c in ('sgd', 'mom', 'adam') for so in ('sgd', 'mom', 'adam')], chunk=1)
  # one long history per optimizer pair (16 rounds, every cohort several times): drift, counters, caches that fill up
  long_path = ['AB', 'A', 'C', 'BA', 'E', 'B', 'AB', 'AB', 'C', 'A', 'B', 'AC', 'E', 'AB', 'A', 'B']
  ctx.pmap('histories', [{'copt': c, 'sopt': so, 'depth': len(long_path), 'history': long_path, 'seed': s}
                         for c, so in (('sgd', 'sgd'), ('mom', 'mom'), ('adam', 'sgd'), ('sgd', 'adam'))], chunk=1)
  backs = ['debug', 'pmap1', 'pmap2', 'pmap3']
  dpops = [list(p) for n in (1, 2) for p in itertools.product(SIZES, repeat=n)]
  if not th:
    dpops = [p for p in dpops if len(p) == 1 or 0 in p or p in ([2, 3], [5, 1], [3, 3])]
  ctx.pmap('orders', [{'sizes': p, 'seed': s, 'backend': b} for b in backs for p in dpops] +
           # new-style typed PRNG keys (jax.random.key) with the same key data: same reference, every backend
           [{'sizes': p, 'seed': s, 'backend': b, 'typed_keys': True} for b in ['jit', 'pmap2'] + (['debug', 'pmap3'] if th else [])
            for p in ([2, 3], [0, 5], [3, 0, 1])], chunk=8)

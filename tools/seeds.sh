#!/bin/bash
# tools/seeds.sh <seed> ...  - all quick checks under several VERIF_SEED values
cd "$(dirname "$0")/.."
for s in "$@"; do echo "== VERIF_SEED=$s"; VERIF_SEED=$s tools/run_all.sh quick; done

#!/usr/bin/env python3
"""mutate.py <worktree> <relative file> <old> <new>   (resets the worktree first; old must occur exactly once)"""
import subprocess, sys
wt, rel, old, new = sys.argv[1:5]
subprocess.check_call(['git', '-C', wt, 'checkout', '-q', '--', '.'])
p = wt + '/' + rel
s = open(p).read()
old = old.encode().decode('unicode_escape'); new = new.encode().decode('unicode_escape')
assert s.count(old) == 1, 'occurrences: %d' % s.count(old)
open(p, 'w').write(s.replace(old, new))

import itertools, numpy as np, jax.numpy as jnp
import fedjax
from fedjax.core import serialization as S
dts = ['bool','int8','int16','int32','int64','uint8','uint16','uint32','uint64','float16','float32','float64','complex64','complex128']
shapes=[(),(0,),(3,),(2,3),(2,0,2),(1,1,1,2)]
def mk(dt, shape):
    n=int(np.prod(shape)); a=(np.arange(n)*3-2)
    if dt=='bool': a=(a%2==0)
    return a.astype(dt).reshape(shape)
def layouts(a):
    yield 'C', a
    if a.ndim>=2: yield 'F', np.asfortranarray(a)
    if a.ndim>=1 and a.shape[0]>0:
        big=np.concatenate([a,a],axis=0); yield 'strided', big[::2]
        yield 'rev', a[::-1]
def same(a,b):
    return isinstance(b,np.ndarray) and a.dtype.name==b.dtype.name and a.shape==b.shape and np.ascontiguousarray(a).astype(a.dtype.newbyteorder('=')).tobytes()==np.ascontiguousarray(b).tobytes()
bad={}
n=0
for dt in dts:
    for sh in shapes:
        base=mk(dt,sh)
        for ln,a in layouts(base):
            for order in ('=','swap'):
                x = a if order=='=' else a.astype(a.dtype.newbyteorder('S'))
                n+=1
                try:
                    y=S.msgpack_deserialize(S.msgpack_serialize({'k':[x]}))['k'][0]
                    if not same(x,y): bad.setdefault((order, 'itemsize>1' if a.dtype.itemsize>1 else 'itemsize1'),[]).append((dt,sh,ln))
                except Exception as e:
                    bad.setdefault(('EXC',type(e).__name__),[]).append((dt,sh,ln,order))
print('cases',n)
for k,v in bad.items(): print(k,len(v),v[:4])
# bfloat16
x=jnp.arange(4,dtype=jnp.bfloat16).reshape(2,2); y=S.msgpack_deserialize(S.msgpack_serialize([x]))[0]; print('bf16', y.dtype, np.array_equal(np.asarray(x),y))
# numpy scalars
for dt in dts:
    v=np.dtype(dt).type(1); r=S.msgpack_deserialize(S.msgpack_serialize({'v':v}))['v']
    if type(r)!=type(v) or r!=v: print('scalar', dt, type(r), r)
# python scalars
for v in [0,-1,2**63-1,2**64-1,-2**63,1.5,float('inf'),True,None,'s',b'b',1+2j, 2**64]:
    try:
        r=S.msgpack_deserialize(S.msgpack_serialize({'v':v}))['v']
        if type(r)!=type(v) or r!=v: print('py', repr(v), type(r), r)
    except Exception as e: print('py EXC', repr(v), type(e).__name__)
# nan/negzero
x=np.array([np.nan,-0.0,np.inf],dtype=np.float32); y=S.msgpack_deserialize(S.msgpack_serialize([x]))[0]; print('bits', x.tobytes()==y.tobytes())
# bytes object arrays
for sh in [(0,),(2,),(2,2)]:
    n=int(np.prod(sh)); x=np.array([b'',b'a\x00',b'\xff',b'zz'][:n]+[b'q']*max(0,n-4),dtype=object).reshape(sh)
    y=S.msgpack_deserialize(S.msgpack_serialize({'o':x}))['o']; print('obj',sh,y.shape,y.dtype, (x==y).all() if n else True)
# non-str dict keys
for k in [1, b'k', (1,2)]:
    try: print('key',repr(k), S.msgpack_deserialize(S.msgpack_serialize({k:1})))
    except Exception as e: print('key EXC', repr(k), type(e).__name__, str(e)[:80])

"""E-graph: explicit-state breadth-first search over the *real* transition function.

A state is represented by the event history that reaches it; live objects are rebuilt by replaying
the history on fresh real objects (`build`). `canon` maps a built state to a hashable key used to
merge histories (it must only drop what cannot influence the future - see each check's argument).
"""
import collections


def bfs(build, enabled, canon, check_state, check_transition, max_depth, roots=((),), max_states=None):
  """Returns stats dict. check_state(hist, obj); check_transition(hist, ev, parent_obj, child_obj).

  build(hist) -> obj or raises; enabled(hist, obj) -> iterable of events;
  check_transition may return False to say "event rejected as expected" (no child state).
  """
  seen = {}
  frontier = collections.deque()
  stats = {'states': 0, 'transitions': 0, 'merged': 0, 'max_depth': 0, 'cap': None}
  for r in roots:
    r = tuple(r)
    obj = build(r)
    k = canon(r, obj)
    if k not in seen:
      seen[k] = r
      check_state(r, obj)
      stats['states'] += 1
      frontier.append(r)
  while frontier:
    hist = frontier.popleft()
    stats['max_depth'] = max(stats['max_depth'], len(hist))
    if len(hist) >= max_depth:
      continue
    parent = build(hist)
    for ev in enabled(hist, parent):
      nxt = hist + (ev,)
      child = check_transition(hist, ev, parent)
      stats['transitions'] += 1
      if child is False or child is None:
        continue
      k = canon(nxt, child)
      if k in seen:
        stats['merged'] += 1
        continue
      seen[k] = nxt
      check_state(nxt, child)
      stats['states'] += 1
      if max_states and stats['states'] >= max_states:
        stats['cap'] = 'max_states=%d' % max_states
        return stats
      frontier.append(nxt)
  return stats

import itertools, numpy as np, jax, jax.numpy as jnp
import fedjax, haiku as hk
from fedjax.core import optimizers as O, client_datasets as cds
from fedjax.algorithms import hyp_cluster, mime_lite
names=[('m1','w'),('m1','b'),('m2','w'),('m2','b')]
params=hk.data_structures.to_immutable_dict({'m1':{'w':jnp.array([1.,2.]),'b':jnp.array(0.5)},'m2':{'w':jnp.array([[1.,-1.]]),'b':jnp.array([3.])}})
grads=jax.tree_util.tree_map(lambda x: x*0.5+1, params)
bad=0
for base_name,base in [('sgd',O.sgd(0.25)),('mom',O.sgd(0.25,momentum=0.5)),('adam',O.adam(0.125))]:
  for r in range(0,5):
    for nt in itertools.combinations(names, r):
      try:
        opt=O.ignore_grads_haiku(base, list(nt)); st=opt.init(params); p=params
        # reference: base on trainable subtree
        tr={m:{k:v for k,v in d.items() if (m,k) not in nt} for m,d in params.items()}
        tr={m:d for m,d in tr.items()}
        rst=base.init(tr); rp=tr
        for step in range(3):
            st,p=opt.apply(grads,st,p)
            g={m:{k:grads[m][k] for k in d} for m,d in rp.items()}
            rst,rp=base.apply(g,rst,rp)
        for (m,k) in names:
            if (m,k) in nt:
                if not np.array_equal(np.asarray(p[m][k]),np.asarray(params[m][k])): bad+=1; print('ignored changed',base_name,nt,(m,k))
            else:
                if not np.allclose(np.asarray(p[m][k]),np.asarray(rp[m][k]),rtol=1e-6): bad+=1; print('trainable differs',base_name,nt,(m,k))
      except Exception as e:
        bad+=1; print('EXC', base_name, nt, type(e).__name__, str(e)[:150])
print('ignore_grads bad',bad)

"""C07 - aggregation is the exact weighted mean and never harms its inputs.

E-enum: tree shapes x client counts x all weight vectors over {0,.5,1,2}^n x all input orders x
iterator kinds x array kinds; float64 reference; alias / donation detection.
"""
import itertools

import numpy as np

from mc import core
from mc.core import require, Violation

PROPERTY = 'C07'
LEVEL = 'exploration'

TREES = ['scalar', 'vec', 'mat_scalar', 'nested', 'int', 'half', 'tied']
WEIGHTS = [0.0, 0.5, 1.0, 2.0]


def make_tree(kind, k, seed, as_jax, f64=False):
  """Tree number k of the given structure; integer-grid values (exact in float32)."""
  import jax.numpy as jnp
  vals = core.value_pool(seed * 31 + k * 7 + 1, 16, lo=-4, hi=4, denom=1)
  conv = (lambda a: jnp.asarray(a)) if as_jax else (lambda a: a)
  dt = np.float64 if f64 else np.float32
  f = lambda n, shape: conv(np.asarray(vals[:n], dt).reshape(shape))
  if kind == 'scalar':
    return f(1, ())
  if kind == 'vec':
    return {'a': f(3, (3,))}
  if kind == 'mat_scalar':
    return {'a': f(4, (2, 2)), 'b': conv(dt(vals[5]))}
  if kind == 'nested':
    return {'p': [f(2, (2,)), {'q': f(3, (1, 3))}], 'r': conv(np.asarray(vals[6:8], dt))}
  if kind == 'int':
    return {'a': conv(np.asarray(vals[:3], np.int32)), 'f': f(2, (2,))}
  if kind == 'tied':
    # tied parameters: the SAME array object at two positions of the tree (and a third, distinct leaf)
    x = f(3, (3,))
    return {'a': x, 'b': x, 'c': f(2, (2,))}
  if kind == 'complex':
    # complex parameters with non-zero imaginary parts (|z|^2 needs the conjugate; sum z*z of this leaf is not its squared norm)
    z = np.asarray(vals[:3], np.float32) + 1j * np.asarray(vals[3:6], np.float32) + np.complex64(1j)
    return {'z': conv(z.astype(np.complex64)), 'f': f(2, (2,))}
  if kind == 'half':
    # reduced-precision leaves; small integers and halves are exact in float16 / bfloat16, so are their weighted sums
    import ml_dtypes
    return {'h': conv(np.asarray(vals[:3], np.float16)), 'bf': conv(np.asarray(vals[3:5], np.float32).astype(ml_dtypes.bfloat16)),
            'f': f(1, ())}
  raise KeyError(kind)


def _tol(dtype):
  """Relative tolerance for results held in `dtype`."""
  import jax.numpy as jnp
  dtype = np.dtype(dtype)
  if dtype.kind == 'f' or dtype.name == 'bfloat16':
    return max(1e-5, 4 * float(jnp.finfo(dtype).eps))
  return 1e-5


def _wide(a):
  a = np.asarray(a)
  return a.astype(np.complex128) if a.dtype.kind == 'c' else a.astype(np.float64)


def leaves(tree):
  import jax
  return jax.tree_util.tree_leaves(tree)


def snapshot(tree):
  return [np.array(l, copy=True) for l in leaves(tree)]


_AGG = []


class _StreamFailure(Exception):
  pass


class OneShot:
  def __init__(self, items):
    self.items, self.used = items, False

  def __iter__(self):
    if self.used:
      raise RuntimeError('input iterable iterated a second time')
    self.used = True
    return iter(self.items)


def wrap(items, kind):
  if kind == 'list':
    return list(items)
  if kind == 'gen':
    return (x for x in items)
  return OneShot(list(items))


def check_inputs_intact(trees, snaps, out, what, case):
  """Inputs alive, unchanged, not aliased by the output."""
  import jax
  out_l = [l for l in leaves(out) if isinstance(l, jax.Array)]
  for t, snap in zip(trees, snaps):
    for l, s in zip(leaves(t), snap):
      if isinstance(l, jax.Array):
        require(not l.is_deleted(), what + ': an input array was deleted (donated)', case=case)
      require(np.array_equal(np.asarray(l), s) and np.asarray(l).dtype == s.dtype, what + ': an input array was modified',
              s.tolist(), np.asarray(l).tolist(), case=case)
  in_ptrs = set()
  for t in trees:
    for l in leaves(t):
      if isinstance(l, jax.Array):
        in_ptrs.add(l.unsafe_buffer_pointer())
  for l in out_l:
    require(l.unsafe_buffer_pointer() not in in_ptrs, what + ': the output aliases a caller buffer', case=case)
  in_np = [l for t in trees for l in leaves(t) if isinstance(l, np.ndarray)]
  for l in leaves(out):
    if isinstance(l, np.ndarray):
      require(not any(l is a or np.shares_memory(l, a) for a in in_np), what + ': an output leaf IS (or shares memory with) a '
              'NumPy array of the caller', case=case)


def mean_case(case):
  """tree_mean / mean_aggregator on one (tree kind, weights, array kind): all orders x iterator kinds."""
  import jax
  from fedjax.core import tree_util
  from fedjax.aggregators import aggregator
  kind, ws, as_jax, seed = case['tree'], case['weights'], case['jax'], case.get('seed', 0)
  n = len(ws)
  if not _AGG:
    _AGG.append(aggregator.mean_aggregator())
  orders = [case['order']] if 'order' in case else (
      list(itertools.permutations(range(n))) if case.get('all_orders', True) else
      [list(range(n)), list(range(n))[::-1], list(range(1, n)) + [0]])
  fns = [case['fn']] if 'fn' in case else ['tree_mean', 'aggregator']
  its = [case['it']] if 'it' in case else ['list', 'gen', 'oneshot']
  # the aggregator ignores client ids: repeated ids (sampling with replacement, anonymous clients) are ordinary input
  idms = [case['ids']] if 'ids' in case else ['distinct', 'same', 'pairs']
  evals = 0
  base = None
  for order in orders:
    for fn in fns:
      for it in [(i, m) for i in its for m in (idms if fn == 'aggregator' and n > 1 else idms[:1])]:
        it, idm = it
        nc = dict(case, order=list(order), fn=fn, it=it, ids=idm)
        mkid = {'distinct': lambda i: b'c%d' % i, 'same': lambda i: b'', 'pairs': lambda i: b'c%d' % (i // 2)}[idm]
        trees = [make_tree(kind, k, seed, as_jax, bool(case.get('f64'))) for k in range(n)]
        if case.get('f64'):
          require(all(np.asarray(l).dtype == np.float64 for t in trees for l in leaves(t)), 'harness: 64-bit mode is not in effect')
        snaps = [snapshot(t) for t in trees]
        # weights may arrive as Python numbers or as (narrow) NumPy / JAX scalars, e.g. taken from a uint8 count array;
        # every weight fits its type, their SUM need not
        wt = case.get('wtype')
        conv_w = {None: lambda w: w, 'uint8': lambda w: np.uint8(w * 60), 'int8': lambda w: np.int8(w * 60),
                  'int16': lambda w: np.int16(w * 12000), 'jint8': lambda w: __import__('jax').numpy.int8(w * 60),
                  'f64arr': lambda w: np.asarray(w, np.float64), 'f64arr1': lambda w: np.array([w], np.float64),
                  'f32arr': lambda w: np.asarray(w, np.float32),
                  # Python ints where the weight is integral, floats otherwise (the FIRST weight may be an int)
                  'pyint': lambda w: int(w) if float(w).is_integer() else w}[wt]
        wobjs = [conv_w(w) for w in ws]          # one weight object per client, handed to both calls below
        wsnap = [np.array(w, copy=True) for w in wobjs]
        pairs = [(trees[i], wobjs[i]) for i in order]
        if n > 1 and evals % 3 == 0:
          # an aggregation whose input stream fails after the first client must leave nothing behind
          def failing():
            yield (pairs[0] if fn == 'tree_mean' else (b'c0',) + pairs[0])
            raise _StreamFailure()
          try:
            tree_util.tree_mean(failing()) if fn == 'tree_mean' else _AGG[0].apply(failing(), _AGG[0].init())
          except _StreamFailure:
            pass
        if fn == 'tree_mean':
          out = tree_util.tree_mean(wrap(pairs, it))
        else:
          agg = _AGG[0]  # one long-lived aggregator object serves every case of this process
          st = agg.init()
          out, st2 = agg.apply(wrap([(mkid(i), t, w) for i, (t, w) in enumerate(pairs)], it), st)
        tot = float(sum(ws))
        ref = []
        for li in range(len(snaps[0])):
          acc = sum(np.asarray(snaps[i][li], np.float64) * ws[i] for i in range(n))
          ref.append(acc / tot if tot > 0 else np.zeros_like(acc))
        got = [np.asarray(l, np.float64) for l in leaves(out)]
        require(jax.tree_util.tree_structure(out) == jax.tree_util.tree_structure(trees[0]),
                'output tree structure differs', case=nc)
        tols = [_tol(np.asarray(l).dtype) for l in leaves(out)]
        if case.get('f64'):
          # 64-bit mode: float64 leaves, arbitrary (non-dyadic) weights, float64 accuracy
          require(all(np.asarray(l).dtype == np.float64 for l in leaves(out)), fn + ': float64 leaves came back in another dtype', case=nc)
          tols = [1e-12 for _ in tols]
        for g, r, tl in zip(got, ref, tols):
          require(g.shape == r.shape and bool(np.all(np.isfinite(g))), 'non-finite or mis-shaped mean',
                  r.tolist(), g.tolist(), case=nc)
          require(bool(np.all(np.abs(g - r) <= tl + tl * np.abs(r))), fn + ' != sum(w*p)/sum(w)', r.tolist(),
                  g.tolist(), case=nc)
        if tot > 0:
          pos = [i for i in range(n) if ws[i] > 0]
          for li, g in enumerate(got):
            lo = np.min([np.asarray(snaps[i][li], np.float64) for i in pos], axis=0) - 1e-5
            hi = np.max([np.asarray(snaps[i][li], np.float64) for i in pos], axis=0) + 1e-5
            require(bool(np.all((g >= lo) & (g <= hi))), 'mean outside the coordinate-wise hull', case=nc)
        check_inputs_intact(trees, snaps, out, fn, nc)
        for w, sw in zip(wobjs, wsnap):
          require(np.array_equal(np.asarray(w), sw), fn + ': a weight object of the caller was modified', sw.tolist(),
                  np.asarray(w).tolist(), case=nc)
        if base is None:
          base = got
        for g, b, tl in zip(got, base, tols):
          require(bool(np.all(np.abs(g - b) <= tl + tl * np.abs(b))), 'result depends on the client order',
                  b.tolist(), g.tolist(), case=nc)
        # the output must survive the death of the inputs
        if as_jax and evals % 7 == 0:
          for t in trees:
            for l in leaves(t):
              if not l.is_deleted():
                l.delete()
          again = [np.asarray(l, np.float64) for l in leaves(out)]
          for g, a in zip(got, again):
            require(np.array_equal(g, a), 'output changed after the inputs were deleted (aliasing)', case=nc)
        evals += 1
  return {'evals': evals, 'outcome': [np.asarray(b).round(4).tolist() for b in base],
          'nontrivial': 0.0 in ws or len(set(ws)) > 1}


def sum_case(case):
  import jax
  from fedjax.core import tree_util
  kind, n, as_jax, seed = case['tree'], case['n'], case['jax'], case.get('seed', 0)
  evals = 0
  for order in ([case['order']] if 'order' in case else itertools.permutations(range(n))):
    for it in ([case['it']] if 'it' in case else ['list', 'gen', 'oneshot']):
      nc = dict(case, order=list(order), it=it)
      trees = [make_tree(kind, k, seed, as_jax) for k in range(n)]
      snaps = [snapshot(t) for t in trees]
      out = tree_util.tree_sum(wrap([trees[i] for i in order], it))
      got = [np.asarray(l) for l in leaves(out)]
      for li, g in enumerate(got):
        r = sum(_wide(snaps[i][li]) for i in range(n))
        require(g.shape == r.shape and bool(np.all(np.abs(_wide(g) - r) <= 1e-5 + _tol(g.dtype) * np.abs(r))),
                'tree_sum != sum', r.tolist(), g.tolist(), case=nc)
        require(g.dtype == snaps[0][li].dtype, 'tree_sum changed the dtype', str(snaps[0][li].dtype), str(g.dtype),
                case=nc)
      check_inputs_intact(trees, snaps, out, 'tree_sum', nc)
      # feed the inputs to a second (donating) call: the first output must not change
      out2 = tree_util.tree_sum([trees[i] for i in order])
      for g, l in zip(got, leaves(out)):
        require(np.array_equal(g, np.asarray(l)), 'first output changed after a second call on the same inputs', case=nc)
      check_inputs_intact(trees, snaps, out2, 'tree_sum (second call)', nc)
      evals += 1
  return {'evals': evals, 'nontrivial': n > 1, 'outcome': [kind, n]}


def utils_case(case):
  """The small public tree utilities (tree_weight, tree_inverse_weight, tree_add, tree_zeros_like, tree_l2_norm,
  tree_size, tree_sum over trees of DIFFERENT dtypes): value against NumPy, inputs alive, unchanged, not aliased - also when
  the same input is used a second time."""
  import jax
  from fedjax.core import tree_util
  kind, as_jax, seed = case['tree'], case['jax'], case.get('seed', 0)
  evals = 0
  for w in (2.0, 0.5, 3, np.float32(1.5), 0.0):
    for fn_name in ('tree_weight', 'tree_inverse_weight'):
      nc = dict(case, fn=fn_name, w=float(w))
      tree = make_tree(kind, 1, seed, as_jax)
      snap = snapshot(tree)
      for rep in range(2):   # the same caller tree is handed in twice
        out = getattr(tree_util, fn_name)(tree, w)
        f = float(w) if fn_name == 'tree_weight' else (1.0 / float(w) if float(w) > 0 else 0.0)
        for g, s0 in zip(leaves(out), snap):
          r = np.asarray(s0, np.float64) * f
          require(bool(np.all(np.abs(np.asarray(g, np.float64) - r) <= _tol(np.asarray(g).dtype) * (1 + np.abs(r)))),
                  fn_name + ' value', r.tolist(), np.asarray(g, np.float64).tolist(), case=nc)
        check_inputs_intact([tree], [snap], out, fn_name + ' (call %d)' % (rep + 1), nc)
      evals += 1
  a, b = make_tree(kind, 0, seed, as_jax), make_tree(kind, 2, seed, as_jax)
  sa, sb = snapshot(a), snapshot(b)
  out = tree_util.tree_add(a, b)
  for g, x, y in zip(leaves(out), sa, sb):
    require(np.array_equal(np.asarray(g, np.float64), np.asarray(x, np.float64) + np.asarray(y, np.float64)), 'tree_add value', case=case)
  check_inputs_intact([a, b], [sa, sb], out, 'tree_add', case)
  z = tree_util.tree_zeros_like(a)
  require(all(not np.any(np.asarray(l)) and np.asarray(l).shape == s0.shape for l, s0 in zip(leaves(z), sa)), 'tree_zeros_like', case=case)
  check_inputs_intact([a], [sa], z, 'tree_zeros_like', case)
  n2 = float(np.sqrt(sum(np.sum(np.asarray(s0, np.float64) ** 2) for s0 in sa)))
  require(abs(float(tree_util.tree_l2_norm(a)) - n2) <= 1e-2 * (1 + n2) if kind == 'half' else abs(float(tree_util.tree_l2_norm(a)) - n2) <= 1e-5 * (1 + n2),
          'tree_l2_norm', n2, float(tree_util.tree_l2_norm(a)), case=case)
  require(int(tree_util.tree_size(a)) == sum(int(np.asarray(s0).size) for s0 in sa), 'tree_size', case=case)
  check_inputs_intact([a], [sa], None, 'tree_l2_norm / tree_size', case)
  # tree_sum over trees whose leaves have different dtypes (an integer tree first, then float trees): nothing is truncated
  if kind in ('vec', 'nested', 'mat_scalar'):
    ti = jax.tree_util.tree_map(lambda l: np.asarray(l).astype(np.int32), make_tree(kind, 0, seed, False))
    tf = jax.tree_util.tree_map(lambda l: np.asarray(l, np.float32) + np.float32(0.5), make_tree(kind, 1, seed, False))
    th = jax.tree_util.tree_map(lambda l: np.asarray(l, np.float16) + np.float16(0.25), make_tree(kind, 2, seed, False))
    for order in itertools.permutations([ti, tf, th]):
      got = tree_util.tree_sum(list(order))
      for g, parts in zip(leaves(got), zip(*[leaves(t) for t in order])):
        r = sum(np.asarray(q, np.float64) for q in parts)
        require(bool(np.all(np.abs(np.asarray(g, np.float64) - r) <= 2e-3 * (1 + np.abs(r)))), 'tree_sum over trees of different '
                'dtypes (order %s)' % [str(np.asarray(leaves(t)[0]).dtype) for t in order], r.tolist(), np.asarray(g, np.float64).tolist(),
                case=case)
      evals += 1
  return {'evals': evals + 4, 'nontrivial': True, 'outcome': [kind, as_jax]}


def clip_case(case):
  import jax
  import jax.numpy as jnp
  from fedjax.core import tree_util
  kind, k, as_jax, seed = case['tree'], case['k'], case['jax'], case.get('seed', 0)
  tree = make_tree(kind, k, seed, as_jax) if not case.get('zero') else jax.tree_util.tree_map(
      lambda l: l * 0, make_tree(kind, k, seed, as_jax))
  sc = case.get('scale', 1.0)
  if sc != 1.0:
    # very small / very large trees (float leaves only): the norm stays far from float32 under/overflow
    tree = jax.tree_util.tree_map(lambda l: (l * np.float32(sc)).astype(l.dtype) if np.asarray(l).dtype.kind == 'f' else l, tree)
  snap = snapshot(tree)
  norm = float(np.sqrt(sum(np.sum(np.abs(_wide(s)) ** 2) for s in snap)))
  got_norm = complex(np.asarray(tree_util.tree_l2_norm(tree)))   # a complex tree may give a complex-typed result; its VALUE is real
  require(abs(got_norm.imag) <= 1e-6 * (1e-30 + norm) and abs(got_norm.real - norm) <= 1e-5 * (1e-30 + norm),
          'tree_l2_norm is not the Euclidean norm', norm, str(got_norm), case=case)
  evals = 0
  for mult in ([case['mult']] if 'mult' in case else [0.0, 0.25, 0.5, 1.0, 1.5, 2.0, 4.0, 'huge']):
    nc = dict(case, mult=mult)
    bound = 1e6 if mult == 'huge' else (mult * norm if norm > 0 else float(mult))
    if case.get('btype'):
      # the bound given as an integer (Python int, NumPy / JAX int32 scalar) - large ones included (50000**2 > 2**31)
      bound = {'int': int, 'np_int32': np.int32, 'jnp_int32': lambda v: jnp.asarray(v, jnp.int32),
               'np_int64': np.int64}[case['btype']](max(1, int(round(bound))))
    out = tree_util.tree_clip_by_global_norm(tree, bound)
    bound = float(bound)
    got = [_wide(l) for l in leaves(out)]
    onorm = float(np.sqrt(sum(np.sum(np.abs(g) ** 2) for g in got)))
    require(all(np.all(np.isfinite(g)) for g in got), 'clipping produced non-finite values', case=nc)
    require(onorm <= bound * (1 + 1e-5) + 1e-30, 'clipped norm exceeds the bound', bound, onorm, case=nc)
    if abs(norm - bound) <= 1e-5 * norm and norm > 0:
      # bound equals the norm up to float32 rounding: either branch is right, the value is the input
      for g, s in zip(got, snap):
        r = _wide(s)
        require(bool(np.all(np.abs(g - r) <= 1e-5 * (min(1.0, norm) + np.abs(r)))), 'clipping at the bound changed the tree',
                r.tolist(), g.tolist(), case=nc)
    elif norm <= bound:
      for g, s in zip(got, snap):
        require(np.array_equal(g, _wide(s)), 'clipping is not the identity below the bound',
                np.asarray(s).tolist(), g.tolist(), case=nc)
    else:
      scale = bound / norm
      for g, s in zip(got, snap):
        r = _wide(s) * scale
        require(bool(np.all(np.abs(g - r) <= 1e-5 * (min(1.0, norm) + np.abs(r)))), 'clipped tree is not bound/norm times the input '
                '(direction changed)', r.tolist(), g.tolist(), case=nc)
    check_inputs_intact([tree], [snap], out, 'tree_clip_by_global_norm', nc)
    evals += 1
  if not as_jax and norm > 0 and not case.get('zero'):
    # history on one tree object: the caller updates its (numpy) leaves in place, then measures / clips again
    import jax
    for factor in (3.0, 0.125):
      for l in leaves(tree):
        if isinstance(l, np.ndarray) and l.shape and l.dtype.kind == 'f':
          l *= np.asarray(factor, l.dtype)
      snap2 = snapshot(tree)
      n2 = float(np.sqrt(sum(np.sum(np.abs(_wide(s_)) ** 2) for s_ in snap2)))
      got_n = complex(np.asarray(tree_util.tree_l2_norm(tree))).real
      require(abs(got_n - n2) <= 1e-5 * (1 + n2), 'tree_l2_norm after an in-place update of the same tree object is stale',
              n2, got_n, case=dict(case, inplace=factor))
      bound = 0.5 * n2
      out = tree_util.tree_clip_by_global_norm(tree, bound)
      on = float(np.sqrt(sum(np.sum(np.abs(_wide(g)) ** 2) for g in leaves(out))))
      require(on <= bound * (1 + 1e-5) + 1e-30, 'clipping after an in-place update of the same tree object exceeds the bound',
              bound, on, case=dict(case, inplace=factor))
      evals += 1
  return {'evals': evals, 'nontrivial': norm > 0, 'outcome': [kind, round(norm, 3)]}


SUBS = {'mean': mean_case, 'sum': sum_case, 'clip': clip_case, 'utils': utils_case}
TIMEOUTS = {k: 600 for k in SUBS}


# sub-spaces re-executed under other interpreter configurations (mc.core.CONFIGS): {configuration: {sub-space: stride}}
# quick tier: every stride-th planned case, thorough tier: all planned cases
CONFIG_PASSES = {'x64': {'mean': 16, 'clip': 6, 'sum': 6}, 'x64_late': {'mean': 64, 'clip': 24}}


def config_cases(cfg, sub, ctx):
  if cfg in ('x64', 'x64_late') and sub == 'mean':
    return [{'tree': t, 'weights': ws, 'jax': True, 'seed': ctx.seed, 'all_orders': False, 'f64': True}
            for t in ('vec', 'nested', 'mat_scalar') for ws in ([0.1, 0.7], [1.0 / 3, 2.0, 0.3], [16777217.0, 3.0], [0.1], [1e-3, 0.0, 0.7, 5.1])]
  return []


def plan(ctx):
  th = ctx.tier == 'thorough'
  ctx.rule = ('tree structure (6, one with float16/bfloat16 leaves) x number of clients 1..4 x every weight vector over {0,.5,1,2}^n x every input order '
              'x {list, generator, one-shot iterable} x {tree_mean, mean_aggregator} x {jax, numpy} leaves; '
              'tree_sum: n<=4 x all orders; clipping: 7 bounds relative to the norm x tree scales {1e-8,1e-7,1e-4,1,1e4,1e12} + zero trees; client ids {distinct, all equal, pairwise equal}; distinct = case tuple; '
              'non-trivial = a zero weight or unequal weights')
  ctx.assumptions += ['leaf values are small integers (exact in float32), offset by VERIF_SEED',
                      'aliasing is detected through buffer pointers and by deleting the inputs after the call']
  mc = []
  for tree in TREES:
    for n in (1, 2, 3, 4):
      for ws in itertools.product(WEIGHTS, repeat=n):
        if n == 4 and not th and not set(ws) <= {0.0, 1.0, 2.0}:
          continue
        for as_jax in (True, False):
          if not as_jax and (n > 2 and not th):
            continue
          mc.append({'tree': tree, 'weights': list(ws), 'jax': as_jax, 'seed': ctx.seed,
                     'all_orders': n <= 3 or th})
  # many clients (sums stay exact in float32: small integers, at most a few hundred terms)
  for tree in ('vec', 'nested', 'half'):
    mc.append({'tree': tree, 'weights': [1.0] * 64 + [2.0] * 36 + [0.0] * 20 + [0.5] * 8, 'jax': True, 'seed': ctx.seed,
               'all_orders': False})
  for ws in ([2.0, 1.5, 3.0], [3.0, 0.5], [1.0, 2.0, 0.5, 2.0]):
    for tree in ('int', 'vec', 'half'):
      mc.append({'tree': tree, 'weights': ws, 'jax': True, 'seed': ctx.seed, 'all_orders': True, 'wtype': 'pyint'})
  for wt in ('uint8', 'int8', 'int16', 'jint8', 'f64arr', 'f64arr1', 'f32arr'):
    for ws in ([2.0, 2.0, 1.0], [2.0, 2.0, 2.0, 2.0], [0.0, 0.0], [1.0, 2.0], [2.0, 2.0]):
      for tree in ('vec', 'nested'):
        mc.append({'tree': tree, 'weights': ws, 'jax': True, 'seed': ctx.seed, 'all_orders': False, 'wtype': wt})
  ctx.pmap('mean', mc, chunk=24)
  ctx.run('sum', [{'tree': t, 'n': n, 'jax': j, 'seed': ctx.seed} for t in TREES + ['complex'] for n in (1, 2, 3, 4)
                  for j in (True, False) if th or n <= 3 or j])
  ctx.run('utils', [{'tree': t, 'jax': j, 'seed': ctx.seed} for t in TREES for j in (True, False)])
  ctx.run('clip', [{'tree': t, 'k': k, 'jax': j, 'seed': ctx.seed, 'zero': z} for t in TREES[:5] + ['tied', 'complex'] for k in range(3)
                   for j in (True, False) for z in (False, True) if not (z and k)] +
          [{'tree': t, 'k': k, 'jax': j, 'seed': ctx.seed, 'zero': False, 'scale': sc} for t in TREES[:5] for k in range(2)
           for j in (True, False) for sc in (1e-8, 1e-7, 1e-4, 1e4, 1e12)] +
          [{'tree': t, 'k': 0, 'jax': True, 'seed': ctx.seed, 'zero': z, 'scale': sc, 'btype': bt}
           for t in ('vec', 'nested') for bt in ('int', 'np_int32', 'jnp_int32', 'np_int64') for z, sc in ((False, 1.0), (False, 1e4), (False, 1e6), (True, 1.0))])

#!/usr/bin/env python3
"""eval_seed.py <mutation dir (patch.diff, demo.py, meta.json)> <Cxx> <label> [--checks C01,C10] [--tier quick] [--no-baseline]

Re-verifies an independently authored breaking change in a scratch worktree of /repo and runs the checks against it:
  1. demo.py exits 0 on the clean worktree,  2. patch applies, demo.py exits non-zero,
  3. the 158 stable-pass tests still pass on the patched worktree,  4. ./vcheck <checks> with VERIF_REPO=<worktree>.
Keeps the artefacts under /verif/seeded/<label>/ (meta.json extended with what was run). Removes the worktree.
"""
import json, os, shutil, subprocess, sys, time

def sh(cmd, **kw):
  return subprocess.run(cmd, shell=True, capture_output=True, text=True, **kw)

def main():
  src, prop, label = sys.argv[1:4]
  args = sys.argv[4:]
  checks = [prop]
  tier = 'quick'
  baseline = True
  for i, a in enumerate(args):
    if a == '--checks': checks = args[i + 1].split(',')
    if a == '--tier': tier = args[i + 1]
    if a == '--no-baseline': baseline = False
  wt = '/tmp/ev_' + label
  sh('git -C /repo worktree remove --force %s' % wt)
  r = sh('git -C /repo worktree add --detach %s HEAD' % wt)
  assert r.returncode == 0, r.stderr
  env = 'cd %s && PYTHONPATH=%s JAX_PLATFORMS=cpu XLA_FLAGS=--xla_force_host_platform_device_count=8 TF_CPP_MIN_LOG_LEVEL=3' % (wt, wt)
  res = {'label': label, 'property': prop}
  try:
    os.makedirs(wt + '/MUTATION/m', exist_ok=True)
    shutil.copy(src + '/demo.py', wt + '/MUTATION/m/demo.py')
    d0 = sh(env + ' timeout 1200 /venv/bin/python MUTATION/m/demo.py')
    res['demo_clean_exit'] = d0.returncode
    ap = sh('git -C %s apply --whitespace=nowarn %s/patch.diff' % (wt, os.path.abspath(src)))
    res['patch_applies'] = ap.returncode == 0
    if not res['patch_applies']:
      res['apply_err'] = ap.stderr[-500:]
    else:
      d1 = sh(env + ' timeout 1200 /venv/bin/python MUTATION/m/demo.py')
      res['demo_mutated_exit'] = d1.returncode
      res['demo_mutated_tail'] = (d1.stdout + d1.stderr)[-600:]
      if baseline:
        b = sh('/verif/tools/baseline.sh %s' % wt)
        res['baseline'] = b.stdout.strip().splitlines()[:6]
        res['baseline_ok'] = b.returncode == 0
      res['checks'] = {}
      for c in checks:
        t = time.time()
        v = sh('cd %s && VERIF_REPO=%s ./vcheck %s --tier %s' % (os.environ.get('VERIF_EVAL_DIR', '/verif'), wt, c, tier))
        lines = v.stdout.splitlines()
        res['checks'][c] = {'exit': v.returncode, 'violations': sum(1 for l in lines if l.startswith('VIOLATION')),
                            'first': [l for l in lines if l.startswith('  case:') or l.startswith('  why')][:4],
                            'harness': [l for l in lines if 'HARNESS' in l][:2], 'wall_s': round(time.time() - t)}
  finally:
    sh('git -C /repo worktree remove --force %s' % wt)
    shutil.rmtree(wt, ignore_errors=True)
  dst = '/verif/seeded/' + label
  os.makedirs(dst, exist_ok=True)
  for f in ('patch.diff', 'demo.py'):
    shutil.copy(src + '/' + f, dst + '/' + f)
  meta = {}
  try:
    meta = json.load(open(src + '/meta.json'))
  except Exception as e:
    meta = {'note': 'author meta.json unreadable: %s' % e}
  meta['verification'] = res
  meta['how_verified'] = ('scratch worktree of /repo HEAD: demo.py on the clean tree (exit %s), git apply patch.diff, demo.py again (exit %s), '
                          'tools/baseline.sh on the patched tree (%s), then ./vcheck <check> --tier %s with VERIF_REPO=<worktree>'
                          % (res.get('demo_clean_exit'), res.get('demo_mutated_exit'), res.get('baseline', ['not run'])[0] if res.get('baseline') else 'not run', tier))
  json.dump(meta, open(dst + '/meta.json', 'w'), indent=1)
  print(json.dumps(res, indent=1))

if __name__ == '__main__':
  main()

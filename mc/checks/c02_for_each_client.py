"""C02 - all for-each-client backends equal the sequential per-client fold.

E-enum: client programs x all batch-count profiles {0,1,2}^n (n<=4) x backends {jit, debug,
pmap on 1,2,3,4,8 devices} x with/without step results, against the plain sequential fold.
E-sched: backend selection across threads - op-level all interleavings, line-level schedules of
for_each_client.py under iterative preemption bounding.
"""
import itertools

import numpy as np

from mc import core, sched
from mc.core import require, Violation, HarnessError

PROPERTY = 'C02'
LEVEL = 'model_checking'
_CACHE = {}


# ---- client programs -------------------------------------------------------------------------------

def programs():
  import jax
  import jax.numpy as jnp

  # PA: float accumulator poisoned by an all-zero padding batch, int32 counter, carried PRNG key,
  #     per-step results that are -inf / inf on a padding batch, final mixes shared input and state.
  def a_init(shared, ci):
    return {'acc': shared['w'] * ci['scale'], 'n': jnp.zeros((), jnp.int32), 'key': ci['key'],
            'seen': jnp.zeros((2,), jnp.bool_)}

  def a_step(st, b):
    k, u = jax.random.split(st['key'])
    m = jnp.sum(jnp.where(b['__mask__'], b['x'], 0.0)) / jnp.sum(b['__mask__'])
    nxt = {'acc': st['acc'] / m + jax.random.uniform(u, ()), 'n': st['n'] + 1, 'key': k,
           'seen': jnp.logical_or(st['seen'], b['x'] > 1.5)}
    # 'resid' has the shape/dtype of the batch leaf and 'echo' (below) that of the shared input: XLA only honours a
    # donation when some output can reuse the buffer, so these make a wrongly donated caller array actually die
    return nxt, {'log': jnp.log(jnp.sum(b['x'])), 'inv': 1.0 / m, 'idx': st['n'], 'resid': b['x'] * 2.0 - 1.0}

  def a_final(shared, st):
    return {'out': st['acc'] - shared['w'], 'n': st['n'], 'seen': st['seen'], 'bias': shared['b'] + st['n'],
            'echo': shared['w'] * 3.0, 'echo_b': shared['b'] * 2}

  # PB: nested tuple state, no step result, default client_final (returns the state itself).
  def b_init(shared, ci):
    return (shared['w'] + ci['scale'], (jnp.ones((), jnp.int32), ci['key']))

  def b_step(st, b):
    v, (c, key) = st
    key, u = jax.random.split(key)
    return (v * jnp.prod(b['x']) + jax.random.normal(u, v.shape), (c * 2 + jnp.sum(b['x'] > 0).astype(jnp.int32), key))

  # PC: a Python-style accumulator: the state starts as an int32 zero and is promoted to float32 by the first step (the
  #     sequential fold simply rebinds the name); final casts, so that clients without batches have the same output dtype.
  def c_init(shared, ci):
    return {'tot': jnp.zeros((), jnp.int32), 'steps': jnp.zeros((), jnp.int32)}

  def c_step(st, b):
    return {'tot': st['tot'] + jnp.sum(jnp.where(b['__mask__'], b['x'], 0.0)) * 0.375, 'steps': st['steps'] + 1}

  def c_final(shared, st):
    return {'tot': st['tot'].astype(jnp.float32) + shared['w'][0], 'steps': st['steps']}

  # PD: narrow-dtype state (uint8 histogram that wraps modulo 256, float16 accumulator) fed by Python scalars that
  #     appear as leaves of the client input and of every batch (weakly typed: they must not widen the state).
  def d_init(shared, ci):
    return {'hist': jnp.zeros((3,), jnp.uint8) + ci['start'], 'acc': jnp.zeros((), jnp.float16)}

  def d_step(st, b):
    return {'hist': st['hist'] * b['mul'] + jnp.sum(b['__mask__']).astype(jnp.uint8), 'acc': st['acc'] + b['inc'] * 0.5}

  def d_final(shared, st):
    return {'hist': st['hist'], 'acc': st['acc'], 'n': shared['b']}

  # PE: integer arithmetic on the batch values (ids hashed into buckets): exact in the batch's own dtype only
  def e_init(shared, ci):
    return {'h': jnp.zeros((), jnp.int32), 's': jnp.zeros((), jnp.float32)}

  def e_step(st, b):
    v = jnp.where(b['__mask__'], b['x'], 0)
    return {'h': st['h'] + jnp.sum(v % 10).astype(jnp.int32), 's': st['s'] + jnp.sum(v % 7).astype(jnp.float32) * 0.25}

  def e_final(shared, st):
    return {'h': st['h'], 's': st['s'] + shared['w'][0]}

  # PF / PG: per-step results that carry NO array (None / an empty dict): still one entry per real batch
  def f_init(shared, ci):
    return {'n': jnp.zeros((), jnp.int32), 'v': shared['w'] * ci['scale']}

  def f_step(st, b):
    return {'n': st['n'] + 1, 'v': st['v'] + jnp.sum(jnp.where(b['__mask__'], b['x'], 0.0))}, None

  def g_step(st, b):
    return {'n': st['n'] + 2, 'v': st['v'] * 0.5 + jnp.max(b['x'])}, {}

  def f_final(shared, st):
    return {'n': st['n'], 'v': st['v'] - shared['w']}

  return {'F': (f_init, f_step, f_final, True), 'G': (f_init, g_step, f_final, True), 'E': (e_init, e_step, e_final, False), 'A': (a_init, a_step, a_final, True), 'B': (b_init, b_step, None, False), 'C': (c_init, c_step, c_final, False),
          'D': (d_init, d_step, d_final, False)}


# client ids are arbitrary hashables: ints, bytes, str (also empty), tuples and None all occur
CLIENT_IDS = [0, b'c1', None, ('t', 3), '', b'']


def make_inputs(profile, seed, typed_keys=False, dup_ids=False, hetero=None):
  import jax
  import jax.numpy as jnp
  shared = {'w': jnp.asarray([1.0, 2.0 + seed % 3]), 'b': jnp.asarray(3, jnp.int32)}
  clients = []
  for i, k in enumerate(profile):
    # batches carry the padding-mask feature; clients with MORE batches hold FEWER real rows per batch, so ordering
    # clients by number of real examples differs from ordering them by number of batches
    batches = [{'x': jnp.asarray([1.0 + i, 2.0 + j + 0.5 * (seed % 2)]),
                '__mask__': jnp.asarray([True, k < 2]), 'mul': 7 + j, 'inc': 1.5 + i} for j in range(k)]   # mul/inc: Python scalars
    if hetero:
      # clients of two KINDS (decided by their number of batches, so that the pmap backend's blocks are homogeneous):
      # other row width, or other dtype (large int32 ids that float32 cannot hold), than the clients with many batches
      long_kind = (k >= 3) != hetero.endswith('_rev')
      width = 4 if (hetero.startswith('width') and not long_kind) else 2
      as_int = hetero.startswith('dtype') and not long_kind
      batches = []
      for j in range(k):
        if as_int:
          x = jnp.asarray([16777217 + 2 * i, 16777219 + 4 * j] + [33554433 + j] * (width - 2), jnp.int32)
        else:
          x = jnp.asarray([1.0 + i, 2.0 + j + 0.5 * (seed % 2)] + [3.0 + j] * (width - 2), jnp.float32)
        batches.append({'x': x, '__mask__': jnp.asarray([True] * (width - 1) + [k < 2]), 'mul': 7 + j, 'inc': 1.5 + i})
    ci = {'scale': jnp.asarray(1.0 + i), 'key': jax.random.PRNGKey(10 + i), 'start': 200 + 20 * i}
    if typed_keys:
      ci['key'] = jax.random.key(10 + i)   # new-style typed key with the same key data
    cid = CLIENT_IDS[i] if i < len(CLIENT_IDS) else b'k%d' % i
    if dup_ids and i >= 2 and i % 2 == 0:
      cid = CLIENT_IDS[0]          # the same client id listed again (a cohort sampled with replacement)
    clients.append((cid, batches, ci))
  return shared, clients


def sequential(prog, shared, clients):
  import jax
  init, step, final, with_res = prog
  out = {}
  with jax.disable_jit():
    for cid, batches, ci in clients:
      st = init(shared, ci)
      rs = []
      for b in batches:
        if with_res:
          st, r = step(st, b)
          rs.append(r)
        else:
          st = step(st, b)
      out[cid] = (final(shared, st) if final is not None else st, rs)
  return out


def backend_fn(prog_name, backend):
  """for_each_client function for (program, backend), cached per process (compilation)."""
  import fedjax
  import jax
  from fedjax.core import for_each_client as fec
  key = (prog_name, backend)
  if key in _CACHE:
    return _CACHE[key]
  init, step, final, with_res = programs()[prog_name]
  if backend in ('jit', 'debug'):
    be = backend
  else:
    d = int(backend[4:])
    devs = jax.local_devices()
    if len(devs) < d:
      raise HarnessError('need %d host devices, have %d (XLA_FLAGS)' % (d, len(devs)))
    be = fec.ForEachClientPmapBackend(devs[:d])
  with fec.for_each_client_backend(be):
    if final is None:
      f = fedjax.for_each_client(init, step, with_step_result=with_res)
    else:
      f = fedjax.for_each_client(init, step, final, with_step_result=with_res)
  _CACHE[key] = f
  return f


def leaves(t):
  import jax
  return jax.tree_util.tree_leaves(t)


def _np(l, copy=False):
  """numpy value of a leaf; typed PRNG keys are represented by their key data."""
  import jax
  if hasattr(l, 'dtype') and jax.dtypes.issubdtype(l.dtype, jax.dtypes.prng_key):
    l = jax.random.key_data(l)
  return np.array(l, copy=True) if copy else np.asarray(l)


def fold(case):
  """One (program, profile): every backend of the case against the sequential fold."""
  import jax
  pname, profile = case['prog'], case['profile']
  prog = programs()[pname]
  with_res = prog[3]
  evals = 0
  outs = set()
  for backend in case['backends']:
    nc = dict(case, backends=[backend])
    shared, clients = make_inputs(profile, case.get('seed', 0), bool(case.get('typed_keys')), bool(case.get('dup_ids')), case.get('hetero'))
    if case.get('dup_ids'):
      # ids repeat: results are matched as a multiset of (id, output values); one result per INPUT CLIENT
      uniq = [(('u', i), b, ci) for i, (_, b, ci) in enumerate(clients)]
      exp_u = sequential(prog, shared, uniq)
      want = sorted((repr(clients[i][0]), [np.asarray(_np(x), np.float64).round(4).tolist() for x in leaves(exp_u[('u', i)][0])])
                    for i in range(len(clients)))
      f = backend_fn(pname, backend)
      got = sorted((repr(g[0]), [np.asarray(_np(x), np.float64).round(4).tolist() for x in leaves(g[1])]) for g in f(shared, clients))
      require(got == want, 'with repeated client ids the backend does not yield exactly one (correct) result per input client',
              want, got, case=nc)
      evals += 1
      continue
    expect = sequential(prog, shared, clients)
    snaps = [_np(l, True) for l in leaves((shared, [(b, ci) for _, b, ci in clients]))]
    nbatches = [len(b) for _, b, _ in clients]
    f = backend_fn(pname, backend)
    it = iter(clients) if case.get('iter') else clients
    got = list(f(shared, it))
    ids = [g[0] for g in got]
    require(sorted(map(repr, ids)) == sorted(map(repr, expect)), 'result ids differ from the input client ids '
            '(exactly one result per client)', sorted(map(repr, expect)), sorted(map(repr, ids)), case=nc)
    for g in got:
      cid = g[0]
      eo, er = expect[cid]
      require(jax.tree_util.tree_structure(g[1]) == jax.tree_util.tree_structure(eo), 'client %r: output structure' % (cid,),
              case=nc)
      for a, b in zip(leaves(g[1]), leaves(eo)):
        a, b = _np(a), _np(b)
        require(a.shape == b.shape and a.dtype == b.dtype, 'client %r: output leaf shape/dtype' % (cid,),
                [list(b.shape), str(b.dtype)], [list(a.shape), str(a.dtype)], case=nc)
        require(bool(np.allclose(a.astype(np.float64), b.astype(np.float64), rtol=1e-5, atol=1e-6)),
                'client %r: output differs from final(shared, fold(step, init(...), batches))' % (cid,), b.tolist(),
                a.tolist(), case=nc)
      if with_res:
        require(len(g) == 3, 'no step results returned', case=nc)
        require(len(g[2]) == len(er), 'client %r: number of step results != number of real batches' % (cid,), len(er),
                len(g[2]), case=nc)
        for j, (ra, rb) in enumerate(zip(g[2], er)):
          for a, b in zip(leaves(ra), leaves(rb)):
            require(bool(np.allclose(_np(a).astype(np.float64), _np(b).astype(np.float64), rtol=1e-5, atol=1e-6)),
                    'client %r: step result %d differs' % (cid, j), _np(b).tolist(), _np(a).tolist(),
                    case=nc)
      else:
        require(len(g) == 2, 'unexpected step results', case=nc)
    require([len(b) for _, b, _ in clients] == nbatches, 'the caller\'s batch lists changed length during the call',
            nbatches, [len(b) for _, b, _ in clients], case=nc)
    now = leaves((shared, [(b, ci) for _, b, ci in clients]))
    for l, s in zip(now, snaps):
      if isinstance(l, jax.Array):
        require(not l.is_deleted(), 'a caller array (shared input / client input / batch) was deleted by the backend',
                case=nc)
      require(np.array_equal(_np(l), s), 'a caller array was modified', s.tolist(), _np(l).tolist(), case=nc)
    # outputs must stay valid after the caller drops its inputs
    for g in got:
      for a in leaves(g[1]):
        if isinstance(a, jax.Array):
          require(not a.is_deleted(), 'an output array is already deleted', case=nc)
    # history on ONE function object: the caller replaces an entry of the same shared container and calls again
    shared['w'] = shared['w'] * 0.5 + 1.0
    expect2 = sequential(prog, shared, clients)
    got2 = {g[0]: g for g in f(shared, iter(clients) if case.get('iter') else clients)}
    require(sorted(map(repr, got2)) == sorted(map(repr, expect2)), 'second call: result ids differ', case=nc)
    for cid, (eo, er) in expect2.items():
      for a, b in zip(leaves(got2[cid][1]), leaves(eo)):
        require(bool(np.allclose(_np(a).astype(np.float64), _np(b).astype(np.float64), rtol=1e-5, atol=1e-6)),
                'client %r: a second call with an updated shared input returned results for a stale shared input' % (cid,),
                _np(b).tolist(), _np(a).tolist(), case=nc)
    # the results of the FIRST call are still what they were (looked at again after the second call on the same object)
    for g in got:
      for a, b in zip(leaves(g[1]), leaves(expect[g[0]][0])):
        if isinstance(a, jax.Array):
          require(not a.is_deleted(), 'client %r: an output of the first call was invalidated by the second call' % (g[0],), case=nc)
        require(bool(np.allclose(_np(a).astype(np.float64), _np(b).astype(np.float64), rtol=1e-5, atol=1e-6)),
                'client %r: the output of the first call changed after a second call' % (g[0],), _np(b).tolist(),
                _np(a).tolist(), case=nc)
    outs.add(core.digest([[repr(c), [_np(x).astype(np.float64).round(4).tolist() for x in leaves(expect[c][0])]] for c in expect]))
    evals += 1
  return {'evals': evals, 'outcomes': sorted(outs), 'nontrivial': len(set(profile)) > 1 or 0 in profile,
          'keys': [[pname, profile, b] for b in case['backends']]}


# ---- backend selection across threads -------------------------------------------------------------

class Boom(Exception):
  pass


def _markers():
  from fedjax.core import for_each_client as fec
  if 'markers' not in _CACHE:
    class Marker(fec.ForEachClientBackend):
      def __init__(self, name):
        self.name = name

      def __call__(self, client_init, client_step, client_final):
        return self.name
    _CACHE['markers'] = {'A': Marker('A'), 'B': Marker('B'), None: None}
  return _CACHE['markers']


def _decorated(name):
  """ONE long-lived function per backend, decorated with @for_each_client_backend(backend) (the context manager used as a
  decorator): recursive calls and calls from several threads re-enter the same decorated function object."""
  from fedjax.core import for_each_client as fec
  key = ('deco', name)
  if key not in _CACHE:
    @fec.for_each_client_backend(_markers()[name])
    def fn(inner):
      return inner()
    _CACHE[key] = fn
  return _CACHE[key]


def decoify(prog, inner_with=False, depth=0):
  """The same program with every context entered through the decorator spelling (inner_with: nested ones stay `with`)."""
  out = []
  for item in prog:
    if item[0] == 'with':
      kind = 'with' if (inner_with and depth > 0) else 'deco'
      out.append([kind, item[1], decoify(item[2], inner_with, depth + 1), item[3]])
    else:
      out.append(item)
  return out


def observe():
  from fedjax.core import for_each_client as fec
  be = fec.get_for_each_client_backend()
  if be is fec.BackendChoice.DEFAULT_BACKEND:
    return 'default'
  name = getattr(be, 'name', repr(type(be).__name__))
  bound = fec.for_each_client(None, None, None, with_step_result=True)
  if bound != name:
    return 'get=%s/bound=%s' % (name, bound)
  return name


def run_prog(prog, obs, point):
  """Scheduling points: before every item, after entering and before leaving a context."""
  from fedjax.core import for_each_client as fec
  m = _markers()
  for item in prog:
    point()
    if item[0] == 'get':
      obs.append(observe())
    elif item[0] == 'set':
      fec.set_for_each_client_backend(m[item[1]])
      obs.append(observe())
    elif item[0] == 'with':
      try:
        with fec.for_each_client_backend(m[item[1]]):
          point()
          obs.append(observe())
          run_prog(item[2], obs, point)
          point()
          if item[3]:
            raise Boom()
      except Boom:
        pass
      obs.append(observe())
    elif item[0] == 'deco':
      def inner(item=item):
        point()
        obs.append(observe())
        run_prog(item[2], obs, point)
        point()
        if item[3]:
          raise Boom()
      try:
        _decorated(item[1])(inner)
      except Boom:
        pass
      obs.append(observe())


def ref_prog(prog, cur, obs):
  """Reference: a per-thread variable with stack discipline for contexts."""
  name = lambda c: 'default' if c is None else c
  for item in prog:
    if item[0] == 'get':
      obs.append(name(cur))
    elif item[0] == 'set':
      cur = item[1]
      obs.append(name(cur))
    elif item[0] in ('with', 'deco'):
      old = cur
      cur = item[1]
      obs.append(name(cur))
      cur = ref_prog(item[2], cur, obs)
      cur = old
      obs.append(name(cur))
  return cur


def enum_programs(nodes):
  """All programs with exactly `nodes` nodes."""
  if nodes == 0:
    return [[]]
  out = []
  for first_nodes in range(1, nodes + 1):
    firsts = []
    if first_nodes == 1:
      firsts += [['get'], ['set', 'A'], ['set', 'B'], ['set', None]]
    for b in ('A', 'B'):
      for body in enum_programs(first_nodes - 1):
        for r in (False, True):
          firsts.append(['with', b, body, r])
    for f in firsts:
      for rest in enum_programs(nodes - first_nodes):
        out.append([f] + rest)
  return out


def _thread_body(prog, sink):
  from fedjax.core import for_each_client as fec

  def body(point):
    obs = []
    sink.append(obs)
    # a thread that has never selected a backend must see the default - whatever threads that lived (and died)
    # before it selected: no reset here, the very first observation is part of the oracle
    obs.append(observe())
    run_prog(prog, obs, point)
    point()
    obs.append(observe())
    return obs
  return body


def threads(case):
  """Explores all schedules (within the preemption bound) of the given thread programs."""
  from fedjax.core import for_each_client as fec
  progs = case['progs']
  mode = case['mode']
  bound = case['bound']
  expect = []
  for p in progs:
    o = ['default']
    cur = ref_prog(p, None, o)
    o.append('default' if cur is None else cur)
    expect.append(o)
  trace_files = ('fedjax/core/for_each_client.py',) if mode == 'line' else ()
  outcomes = set()
  before = observe()

  def make_bodies():
    sinks = [[] for _ in progs]
    return [_thread_body(p, s) for p, s in zip(progs, sinks)]

  def check(ex):
    for tid, want in enumerate(expect):
      got = ex.results.get(tid)
      nc = dict(case, schedule=ex.choices, thread_order=ex.trace)
      require(got == want, 'thread %d observed backends %r under schedule %r (thread order %r); the per-thread '
              'reference is %r' % (tid, got, ex.choices, ex.trace, want), want, got, case=nc)
    outcomes.add(core.digest([ex.results.get(t) for t in range(len(progs))]))
    require(observe() == before, 'backend selection leaked into the observer (main) thread', before, observe(),
            case=dict(case, schedule=ex.choices))
  if 'schedule' in case:
    ex = sched.Scheduler(make_bodies(), trace_files, case['schedule']).run()
    check(ex)
    return {'evals': 1}
  if mode == 'op':
    st = sched.explore(make_bodies, check, bound=bound if bound >= 0 else 10 ** 6, trace_files=())
  else:
    st = sched.explore(make_bodies, check, bound=bound, trace_files=trace_files,
                       max_executions=case.get('max_executions'), time_budget_s=case.get('time_budget_s', 240))
  info = {'evals': st['executions'], 'states': st['executions'], 'transitions': st['executions'] * max(1, st['max_points']),
          'traces': st['executions'], 'outcomes': sorted(outcomes), 'nontrivial': len(progs) > 1,
          'stats': {'schedules': st['executions']},
          'sample': {'progs': progs, 'mode': mode, 'bound': bound, 'schedules': st['executions'],
                     'max_scheduling_points': st['max_points']}}
  if st['capped']:
    info['cap'] = 'execution/time cap (max_executions=%s, %ss) reached at preemption bound %d after %d schedules' % (
        case.get('max_executions'), case.get('time_budget_s', 240), bound, st['executions'])
  return info


def selection_histories(case):
  """The backend selection of the calling thread while a (lazy) result stream of a for_each_client function is alive:
  a function is CREATED under one selection and CONSUMED (fully, partially, with a set_for_each_client_backend in
  between, with an exception in the consumer) under another; after every step the thread's selection must be exactly
  what its own set/with operations say - running or holding a result stream changes nothing."""
  import jax.numpy as jnp
  import fedjax
  from fedjax.core import for_each_client as fec
  made, consume, step = case['made_under'], case['consumed_under'], case['scenario']
  sel = lambda name: {None: fec.BackendChoice.DEFAULT_BACKEND}.get(name, name)

  def name_of():
    b = fec.get_for_each_client_backend()
    if b is fec.BackendChoice.DEFAULT_BACKEND or b is None:
      return 'default'
    return {'ForEachClientDebugBackend': 'debug', 'ForEachClientJitBackend': 'jit', 'ForEachClientPmapBackend': 'pmap'}.get(
        type(b).__name__, type(b).__name__)
  fec.set_for_each_client_backend(None)   # whatever an earlier (violating) case of this process left behind
  init = lambda shared, ci: {'s': shared['w'] * ci}
  stepf = lambda st, b: {'s': st['s'] + jnp.sum(b['x'])}
  final = lambda shared, st: st['s']
  clients = [(b'c%d' % i, [{'x': jnp.asarray([1.0 + i, 2.0])}] * (i % 3), jnp.asarray(1.0 + i)) for i in range(4)]
  want = {c[0]: float(1.0 * (1.0 + i) + (i % 3) * (3.0 + i)) for i, c in enumerate(clients)}
  base = name_of()
  require(base == 'default', 'harness: the thread starts with a non-default selection', 'default', base)
  with fec.for_each_client_backend(sel(made)) if made else _null():
    f = fedjax.for_each_client(init, stepf, final)
  require(name_of() == 'default', 'creating a for_each_client function changed the selection', 'default', name_of(), case=case)
  evals = 0
  with fec.for_each_client_backend(sel(consume)) if consume else _null():
    ambient = name_of()
    it = iter(f({'w': jnp.asarray(1.0)}, clients))
    got = {}
    cid, out = next(it)
    got[cid] = float(out)
    require(name_of() == ambient, 'holding a partially consumed result stream changed the thread\'s backend selection',
            ambient, name_of(), case=case)
    if step == 'set_between':
      fec.set_for_each_client_backend('debug')
      ambient = 'debug'
    if step == 'abandon':
      del it
    elif step == 'raise':
      try:
        for cid, out in it:
          raise Boom()
      except Boom:
        pass
    elif step in ('keyboard_interrupt', 'system_exit', 'generator_exit'):
      # a nested context left by an exception that is NOT an Exception subclass (Ctrl-C, sys.exit, an abandoned generator
      # that holds the context open): the selection of the enclosing scope must be back afterwards
      for cid, out in it:
        got[cid] = float(out)
      if step == 'generator_exit':
        def holder():
          with fec.for_each_client_backend('debug'):
            yield 1
            yield 2
        g = holder()
        next(g)
        require(name_of() == 'debug', 'harness: the generator did not enter its context', case=case)
        g.close()
      else:
        exc = {'keyboard_interrupt': KeyboardInterrupt, 'system_exit': SystemExit}[step]
        try:
          with fec.for_each_client_backend('debug'):
            raise exc()
        except exc:
          pass
    else:
      for cid, out in it:
        got[cid] = float(out)
        require(name_of() == ambient, 'consuming a result stream changed the thread\'s backend selection', ambient, name_of(),
                case=case)
      require(got == want, 'results differ from the sequential fold', want, got, case=case)
    import gc
    gc.collect()
    require(name_of() == ambient, 'after the result stream ended (%s) the selection is not what the thread selected' % step,
            ambient, name_of(), case=case)
    evals += 1
  fec.set_for_each_client_backend(None)
  require(name_of() == 'default', 'the selection was not restored after the contexts exited', 'default', name_of(), case=case)
  return {'evals': evals, 'states': evals, 'transitions': evals * 3, 'traces': evals, 'nontrivial': made != consume,
          'outcome': [made, consume, step]}


import contextlib as _contextlib


@_contextlib.contextmanager
def _null():
  yield


SUBS = {'fold': fold, 'threads': threads, 'selection_histories': selection_histories}
TIMEOUTS = {'fold': 1500, 'threads': 2400, 'selection_histories': 600}


# sub-spaces re-executed under other interpreter configurations (mc.core.CONFIGS): {configuration: {sub-space: stride}}
# quick tier: every stride-th planned case, thorough tier: all planned cases
CONFIG_PASSES = {'x64': {'fold': 8}}


def plan(ctx):
  th = ctx.tier == 'thorough'
  n_max = 4 if th else 3
  devs = [1, 2, 3, 4, 8] if th else [1, 3]
  backends = ['jit', 'debug'] + ['pmap%d' % d for d in devs]
  ctx.rule = ('fold: 4 client programs (one with a dtype-promoting state, one with uint8/float16 state fed by Python scalars; client ids int/bytes/None/tuple/str) x every batch-count profile in {0,1,2}^n, n<=%d x backends %s (list and one-pass '
              'iterator inputs); threads: every pair of backend-selection programs (<=2 nodes vs <=1 node; thorough <=2 '
              'vs <=2) under op-level schedules (all interleavings for 1-node pairs, else <=2 (thorough 3) preemptions), 3-thread triples, and line-level schedules of for_each_client.py '
              'with <=%d preemptions; distinct = (program, profile, backend) / (thread programs, schedule); non-trivial = '
              'unequal batch counts or an empty client / more than one thread' % (n_max, backends, 3 if th else 2))
  ctx.assumptions += ['pmap runs on forced host (CPU) devices', 'line-level scheduling treats one source line of '
                      'for_each_client.py as atomic', 'marker backends replace real backends inside scheduled threads '
                      '(no JAX computation runs under the scheduler)']
  fc = []
  for n in range(0, n_max + 1):
    for profile in itertools.product((0, 1, 2), repeat=n):
      for prog in ('A', 'B', 'C', 'D'):
        fc.append({'prog': prog, 'profile': list(profile), 'backends': backends, 'seed': ctx.seed,
                   'iter': sum(profile) % 2 == 1})
  # more clients than any device count, several blocks, batch counts in no particular order
  for prog in ('A', 'C', 'D'):
    fc.append({'prog': prog, 'profile': [2, 0, 1, 2, 1, 0, 2, 2, 1, 0, 1, 2, 0, 0, 2, 1, 1], 'backends': backends, 'seed': ctx.seed,
               'iter': True})
  for profile in ([2], [1, 0, 2], [0], [2, 1, 2, 0, 1, 2, 1], []):
    for prog in ('F', 'G'):
      fc.append({'prog': prog, 'profile': profile, 'backends': backends, 'seed': ctx.seed, 'iter': len(profile) == 3})
  for profile in ([1, 0, 2, 1], [2, 1, 2, 0, 1, 2, 1]):
    for prog in ('A', 'C'):
      fc.append({'prog': prog, 'profile': profile, 'backends': backends, 'seed': ctx.seed, 'iter': False, 'dup_ids': True})
  for profile in ([1, 0, 2], [2, 2], [0]):
    for prog in ('A', 'B'):
      fc.append({'prog': prog, 'profile': profile, 'backends': backends, 'seed': ctx.seed, 'iter': False, 'typed_keys': True})
  # cohorts of two kinds of clients (row width / dtype of the batches), homogeneous inside every pmap block but not across blocks
  for het in ('width', 'width_rev', 'dtype', 'dtype_rev'):
    for profile, bes in (([3, 3, 2, 1], ['jit', 'debug', 'pmap2']), ([2, 1, 3, 3], ['jit', 'pmap2']), ([3, 4, 1, 0], ['pmap2']),
                         ([4, 3, 3, 1, 0], ['jit', 'pmap3']), ([2, 3, 3, 1, 3, 2], ['pmap3'])):
      for prog in (('E', 'C', 'D') if het.startswith('width') else ('E',)):
        fc.append({'prog': prog, 'profile': profile, 'backends': bes, 'seed': ctx.seed, 'iter': False, 'hetero': het})
  # group by program so that each worker compiles few backends: chunk = contiguous cases
  ctx.pmap('fold', fc, chunk=max(4, len(fc) // 32))
  ctx.run('selection_histories', [{'made_under': m, 'consumed_under': c, 'scenario': sc} for m in (None, 'debug', 'jit')
                                  for c in (None, 'debug', 'jit') for sc in ('exhaust', 'abandon', 'raise', 'set_between', 'keyboard_interrupt',
                                                                              'system_exit', 'generator_exit')])
  p1 = enum_programs(1)
  p2 = p1 + enum_programs(2)
  tc = []
  second = p2 if th else [[['set', 'A']], [['with', 'B', [], False]], [['with', 'B', [], True]]]
  for a in p2:
    for b in second:
      tc.append({'progs': [a, b], 'mode': 'op', 'bound': -1 if len(a) + len(b) <= 2 and not th else (3 if th else 2)})
  p1s = [[['set', 'A']], [['with', 'B', [], False]], [['get']]]
  for a, b, c in itertools.product(p1 if th else p1s, repeat=3):
    tc.append({'progs': [a, b, c], 'mode': 'op', 'bound': 3 if th else 2})
  # the decorator spelling (@for_each_client_backend(b) on ONE long-lived function per backend): every 1- and 2-node program
  # alone (recursion into the same decorated function), and pairs of threads that overlap inside the same decorated function
  dc = []
  for a in p2:
    if any(it[0] == 'with' for it in a):
      dc.append({'progs': [decoify(a)], 'mode': 'op', 'bound': -1})
      if any(it[0] == 'with' and any(x[0] == 'with' for x in it[2]) for it in a):
        dc.append({'progs': [decoify(a, inner_with=True)], 'mode': 'op', 'bound': -1})
  for a in [decoify(x) for x in p2 if any(it[0] == 'with' for it in x)][::(1 if th else 3)]:
    for b in ([['deco', 'A', [], False]], [['deco', 'B', [['get']], False]], [['set', 'A'], ['deco', 'B', [], True]]):
      dc.append({'progs': [a, b], 'mode': 'op', 'bound': 3 if th else 2})
  # contexts entered with the backend that is ALREADY the thread's choice (None in a thread that never chose, the same marker
  # object again) whose body changes the selection: leaving restores what was in effect on entry
  same = []
  for inner in ([['set', 'A']], [['set', 'B'], ['get']], [['set', None]], [['with', 'B', [['set', 'A']], False]], [['set', 'A'], ['set', None]]):
    for raises in (False, True):
      same.append([['with', None, inner, raises], ['get']])
      same.append([['set', 'A'], ['with', 'A', inner, raises], ['get']])
      same.append([['with', 'A', [['with', 'A', inner, raises], ['get']], False]])
      same.append([['deco', None, inner, raises]])
  for a in same:
    dc.append({'progs': [a], 'mode': 'op', 'bound': -1})
  for a in same[::3]:
    dc.append({'progs': [a, [['with', 'B', [['get']], False]]], 'mode': 'op', 'bound': 2})
  tc += dc
  ctx.pmap('threads', tc, chunk=max(4, len(tc) // 160))
  line = [
      [[['with', 'A', [['get']], False]], [['with', 'B', [['get']], True]]],
      [[['set', 'A'], ['get']], [['with', 'B', [['set', None]], False]]],
      [[['with', 'A', [['with', 'B', [], True]], False]], [['set', 'B'], ['set', None]]],
      [[['with', 'A', [], False]], [['with', 'B', [], False]], [['get']]],
  ]
  lc = []
  for progs in (line if th else line[:2]):
    for bound in ((0, 1, 2, 3) if th else (0, 1, 2)):
      lc.append({'progs': progs, 'mode': 'line', 'bound': bound, 'max_executions': 60000 if th else 1500, 'time_budget_s': 900 if th else 120})
  ctx.pmap('threads', lc, chunk=1)

"""C11 - stochastic quantizers are unbiased, bounded, finite and accounted.

E-enum over the quantizer's randomness: jax.random.uniform is replaced by a *grid uniform* seam that
decodes the draw of coordinate j from the key (digit j of key_data[-1] in base K, mid-point of the
cell), so enumerating key_data[-1] over 0..K^d-1 enumerates ALL joint answers of a K-point quadrature;
expectation, support and bounds are then decided exactly for inputs whose thresholds are multiples
of 1/K. Aggregators: histories of rounds with recording seams at the public quantize boundaries.
"""
import itertools
import math

import numpy as np

from mc import algos, core, seams
from mc.core import require, Violation, HarnessError

PROPERTY = 'C11'
LEVEL = 'exploration'


def grid_uniform_factory(k):
  import jax.numpy as jnp

  def grid_uniform(key, shape=(), dtype=None, minval=0., maxval=1.):
    n = int(np.prod(shape)) if shape else 1
    kd = jnp.asarray(key).reshape(-1)[-1].astype(jnp.uint32)
    pw = jnp.asarray(np.array([k ** j for j in range(n)], dtype=np.uint64).astype(np.uint32))
    digit = (kd // pw) % jnp.uint32(k)
    u = (digit.astype(jnp.float32) + 0.5) / k
    return u.reshape(shape)
  return grid_uniform


def answer_keys(num):
  return np.stack([np.zeros(num, np.uint32), np.arange(num, dtype=np.uint32)], axis=1)


def base_vectors():
  g = [0.0, 0.25, 0.5, 0.75, 1.0]
  out = []
  for d in (1, 2, 3):
    for v in itertools.product(g, repeat=d):
      out.append(list(v))
  return out


def quantize_all(fn_name, v, levels, k):
  """All K^d answers through one vmapped call. Returns array [A, d]."""
  import jax
  import jax.numpy as jnp
  from fedjax.aggregators import compression as comp
  v = np.asarray(v, np.float32)
  d = v.size
  keys = jnp.asarray(answer_keys(k ** d))
  with seams.patched(jax.random, uniform=grid_uniform_factory(k)):
    if fn_name == 'uniform':
      f = lambda key: comp.uniform_stochastic_quantize(jnp.asarray(v), levels, key)
    elif fn_name == 'binary':
      f = lambda key: comp.binary_stochastic_quantize(jnp.asarray(v), key)
    else:
      f = lambda key: comp.terngrad_quantize(jnp.asarray(v), key)
    out = jax.vmap(f)(keys)
  return np.asarray(out, np.float64).reshape(k ** d, *v.shape)


def _levels_check(out, v, levels, what, nc):
  """Support: each coordinate is one of the two neighbouring levels of the uniform grid on [min, max]."""
  v64 = np.asarray(v, np.float64)
  lo, hi = v64.min(), v64.max()
  scale = max(abs(lo), abs(hi), 1e-30)
  require(bool(np.all(np.isfinite(out))), what + ': non-finite output', 'finite', out[~np.isfinite(out).all(axis=tuple(
      range(1, out.ndim)))][:2].tolist(), case=nc)
  if hi == lo:
    require(bool(np.all(np.abs(out - v64) <= 1e-6 * scale)), what + ': constant vector not returned unchanged', v64.tolist(),
            out[0].tolist(), case=nc)
    return
  step = (hi - lo) / (levels - 1)
  pos = (v64 - lo) / step
  fl, ce = np.floor(pos + 1e-6), np.ceil(pos - 1e-6)
  lo_level, hi_level = lo + fl * step, lo + ce * step
  tol = 2e-6 * scale + 1e-6 * (hi - lo)
  ok = (np.abs(out - lo_level) <= tol) | (np.abs(out - hi_level) <= tol)
  if not ok.all():
    a = int(np.argwhere(~ok)[0][0])
    raise Violation(what + ': an output coordinate is not one of the two neighbouring grid levels (answer %d)' % a,
                    [lo_level.tolist(), hi_level.tolist()], out[a].tolist(), case=nc)
  require(bool(np.all(out >= lo - tol) and np.all(out <= hi + tol)), what + ': output outside [min, max]', case=nc)
  require(bool(np.all(np.abs(out - v64) <= step + tol)), what + ': error larger than one grid step', case=nc)


def quantize_grid(case):
  """One (function, levels, scale, offset): every base vector x all K^d joint answers."""
  fn, levels, s, o, k = case['fn'], case['levels'], case['scale'], case['offset'], case['K']
  vecs = [case['vec']] if 'vec' in case else base_vectors()
  evals = 0
  outs = set()
  for bv in vecs:
    nc = dict(case, vec=bv)
    v = np.asarray(bv, np.float64) * s + o
    out = quantize_all(fn, v, levels, k)
    d = len(bv)
    scale = max(np.abs(v).max(), 1e-30)
    v32 = np.asarray(np.asarray(v, np.float32), np.float64)
    if fn in ('uniform', 'binary'):
      _levels_check(out, v32, levels if fn == 'uniform' else 2, fn, nc)
      mean = out.mean(axis=0)
      rng_ = v32.max() - v32.min()
      lv = levels if fn == 'uniform' else 2
      step = rng_ / (lv - 1) if rng_ > 0 else 0.0
      posn = (v32 - v32.min()) / step if step > 0 else np.zeros_like(v32)
      frac = posn - np.floor(posn)
      on_k = np.abs(frac * k - np.round(frac * k)) < 1e-4  # threshold is a multiple of 1/K: the quadrature is exact
      allowed = np.where(on_k, 0.0, step / (2 * k)) + 2e-6 * scale + 2e-6 * rng_
      require(bool(np.all(np.abs(mean - v32) <= allowed)), fn + ': the mean over all %d joint answers differs from the input '
              '(exact where the threshold is a multiple of 1/K, else within the mid-point bound step/2K): biased quantizer'
              % len(out), v32.tolist(), mean.tolist(), case=nc)
      # vectors already on the grid pass unchanged for EVERY answer
      if rng_ > 0:
        pos = (v32 - v32.min()) / (rng_ / ((levels if fn == 'uniform' else 2) - 1))
        if np.all(np.abs(pos - np.round(pos)) < 1e-6):
          require(bool(np.all(np.abs(out - v32) <= 2e-6 * scale + 2e-6 * rng_)), fn + ': a vector already on the grid was '
                  'changed for some answer', v32.tolist(), None, case=nc)
    else:
      sigma = v32.std()
      clipped = np.where(np.abs(v32) > 2.5 * sigma, 2.5 * sigma * np.sign(v32), v32)
      smax = np.abs(clipped).max()
      tol = 2e-6 * scale
      require(bool(np.all(np.isfinite(out))), 'terngrad: non-finite output', case=nc)
      ok = (np.abs(out) <= tol) | (np.abs(np.abs(out) - smax) <= tol)
      require(bool(ok.all()), 'terngrad: output outside {-s, 0, +s}', smax, out[~ok.all(axis=1)][:1].tolist(), case=nc)
      require(bool(np.all((np.sign(out) == np.sign(clipped)) | (np.abs(out) <= tol))), 'terngrad: sign flipped', case=nc)
      mean = out.mean(axis=0)
      # thresholds |v|/s are multiples of 1/K only for some vectors: mid-point rule bound s/(2K) otherwise
      bound = smax / (2 * k) + tol
      require(bool(np.all(np.abs(mean - clipped) <= bound)), 'terngrad: mean over all answers differs from the clipped input '
              'by more than the quadrature bound', clipped.tolist(), mean.tolist(), case=nc)
    # coordinate j depends only on answer j
    if d > 1:
      a = np.arange(k ** d)
      for j in range(d):
        dj = (a // k ** j) % k
        for val in range(k):
          col = out[dj == val, j]
          require(bool(np.all(col == col[0])), fn + ': output coordinate %d depends on the draws of other coordinates' % j,
                  case=nc)
    evals += len(out)
    outs.add(core.digest(out.mean(axis=0).round(6).tolist()))
  return {'evals': evals, 'nontrivial': True, 'outcomes': sorted(outs),
          'keys': [[fn, levels, s, o, i] for i in range(len(vecs))]}


SPECIAL = {
    'range_1e-30_1e30': [1e-30, 1.0, 1e30],
    'huge_sym': [-3e38, 0.0, 3e38],
    'huge_pos': [0.0, 1e38, 3e38],
    'tiny': [1e-30, 2e-30, 3e-30],
    'neg_const': [-2.5, -2.5],
    'zeros': [0.0, 0.0, 0.0, 0.0],
    'single': [7.0],
    'single_zero': [0.0],
    'mixed': [-1.0, 3.0, 0.5, 0.5],
    'offgrid': [0.0, 0.3, 1.0],
    'outlier': [0.1, -0.2, 0.15, 0.05, -0.1, 10.0, 0.0, 0.12],
}


def thresholds(case):
  """uniform_stochastic_quantize with explicit v_min / v_max (its documented threshold arguments): the grid lies between the
  thresholds, coordinates outside saturate at them; every output is one of the two grid neighbours of the saturated input,
  inside [v_min, v_max], with the saturated input as its mean - for all K^d joint answers."""
  import jax
  import jax.numpy as jnp
  from fedjax.aggregators import compression as comp
  levels, k = case['levels'], case['K']
  vecs = [case['vec']] if 'vec' in case else [v for v in base_vectors() if len(v) <= 2]
  pairs = [case['pair']] if 'pair' in case else [(a, b) for a in (None, -0.5, 0.0, 0.25, 0.5) for b in (None, 0.5, 0.75, 1.0, 1.5)
                                                 if not (a is None and b is None) and (a is None or b is None or a < b)]
  evals, outs = 0, set()
  for bv in vecs:
    v = np.asarray(bv, np.float32)
    d = v.size
    keys = jnp.asarray(answer_keys(k ** d))
    for a, b in pairs:
      lo = float(v.min()) if a is None else a
      hi = float(v.max()) if b is None else b
      if not lo < hi:
        continue
      nc = dict(case, vec=bv, pair=[a, b])
      with seams.patched(jax.random, uniform=grid_uniform_factory(k)):
        out = np.asarray(jax.vmap(lambda key: comp.uniform_stochastic_quantize(jnp.asarray(v), levels, key, a, b))(keys), np.float64)
      out = out.reshape(k ** d, d)
      c = np.clip(v.astype(np.float64), lo, hi)
      step = (hi - lo) / (levels - 1)
      pos = (c - lo) / step
      lo_l, hi_l = lo + np.floor(pos + 1e-6) * step, lo + np.ceil(pos - 1e-6) * step
      tol = 4e-6 * max(abs(lo), abs(hi), 1.0)
      require(bool(np.all(np.isfinite(out))), 'uniform with thresholds: non-finite output', case=nc)
      ok = (np.abs(out - lo_l) <= tol) | (np.abs(out - hi_l) <= tol)
      require(bool(ok.all()), 'uniform with thresholds (%r, %r): an output coordinate is not a grid neighbour of the input saturated at '
              'the thresholds' % (a, b), [lo_l.tolist(), hi_l.tolist()], out[~ok.all(axis=1)][:1].tolist(), case=nc)
      require(bool(np.all(out >= lo - tol) and np.all(out <= hi + tol)), 'uniform with thresholds: output outside [v_min, v_max]',
              [lo, hi], [float(out.min()), float(out.max())], case=nc)
      frac = pos - np.floor(pos)
      on_k = np.abs(frac * k - np.round(frac * k)) < 1e-4
      allowed = np.where(on_k, 0.0, step / (2 * k)) + tol
      mean = out.mean(axis=0)
      require(bool(np.all(np.abs(mean - c) <= allowed)), 'uniform with thresholds: the mean over all %d joint answers is not the '
              'saturated input' % len(out), c.tolist(), mean.tolist(), case=nc)
      evals += len(out)
      outs.add(core.digest(mean.round(6).tolist()))
  return {'evals': evals, 'nontrivial': True, 'outcomes': sorted(outs), 'keys': [[levels, i] for i in range(len(vecs))]}


def quantize_special(case):
  """Special vectors: per-coordinate quadrature (K=64) and real keys; finiteness, support, bounds."""
  import jax
  import jax.numpy as jnp
  from fedjax.aggregators import compression as comp
  name, fn, levels = case['name'], case['fn'], case['levels']
  v = np.asarray(SPECIAL[name], np.float32)
  v64 = np.asarray(v, np.float64)
  d = v.size
  k = 64
  evals = 0
  nc = case
  scale = max(np.abs(v64).max(), 1e-38)
  # per-coordinate answers (others at cell 0)
  means = np.zeros(d)
  with seams.patched(jax.random, uniform=_percoord_uniform_factory(k, d)):
    for j in range(d):
      keys = jnp.asarray(np.stack([np.full(k, j, np.uint32), np.arange(k, dtype=np.uint32)], axis=1))
      if fn == 'uniform':
        f = lambda key: comp.uniform_stochastic_quantize(jnp.asarray(v), levels, key)
      elif fn == 'binary':
        f = lambda key: comp.binary_stochastic_quantize(jnp.asarray(v), key)
      else:
        f = lambda key: comp.terngrad_quantize(jnp.asarray(v), key)
      out = np.asarray(jax.vmap(f)(keys), np.float64)
      require(bool(np.all(np.isfinite(out))), fn + ': NaN/Inf output for a finite input vector', 'finite', out[0].tolist(),
              case=nc)
      if fn in ('uniform', 'binary'):
        _levels_check(out, v64, levels if fn == 'uniform' else 2, fn, nc)
      means[j] = out[:, j].mean()
      evals += k
  if fn in ('uniform', 'binary'):
    step = (v64.max() - v64.min()) / ((levels if fn == 'uniform' else 2) - 1)
    require(bool(np.all(np.abs(means - v64) <= step / (2 * k) + 4e-6 * scale)), fn + ': per-coordinate mean over the 64-point '
            'quadrature differs from the input by more than step/(2K)', v64.tolist(), means.tolist(), case=nc)
  else:
    sigma = v64.std()
    clipped = np.where(np.abs(v64) > 2.5 * sigma, 2.5 * sigma * np.sign(v64), v64)
    smax = np.abs(clipped).max()
    require(bool(np.all(np.abs(means - clipped) <= smax / (2 * k) + 4e-6 * scale)), 'terngrad: mean differs from the input '
            'clipped at 2.5 sigma', clipped.tolist(), means.tolist(), case=nc)
    if name == 'outlier':
      require(abs(clipped[5]) < 10.0, 'harness: the outlier vector does not exercise clipping')
  # real randomness: keys 0..15
  log = []
  real_uniform = jax.random.uniform

  def rec_uniform(key, shape=(), *a, **kw):
    log.append(tuple(shape))
    return real_uniform(key, shape, *a, **kw)
  with seams.patched(jax.random, uniform=rec_uniform):
    for seed in range(16):
      key = jax.random.PRNGKey(seed)
      log.clear()
      if fn == 'uniform':
        out = comp.uniform_stochastic_quantize(jnp.asarray(v), levels, key)
      elif fn == 'binary':
        out = comp.binary_stochastic_quantize(jnp.asarray(v), key)
      else:
        out = comp.terngrad_quantize(jnp.asarray(v), key)
      out = np.asarray(out, np.float64)
      require(log == [tuple(v.shape)], fn + ': expected exactly one uniform draw of the leaf shape', [list(v.shape)],
              [list(s) for s in log], case=dict(nc, seed=seed))
      require(bool(np.all(np.isfinite(out))), fn + ': NaN/Inf with a real key', case=dict(nc, seed=seed))
      if fn in ('uniform', 'binary'):
        _levels_check(out[None], v64, levels if fn == 'uniform' else 2, fn + ' (real key)', dict(nc, seed=seed))
      evals += 1
  return {'evals': evals, 'nontrivial': True, 'outcome': [name, fn, levels]}


def _percoord_uniform_factory(k, d):
  """key = (j, a): coordinate j gets the mid-point of cell a, all other coordinates cell 0."""
  import jax.numpy as jnp

  def u(key, shape=(), dtype=None, minval=0., maxval=1.):
    n = int(np.prod(shape)) if shape else 1
    kk = jnp.asarray(key).reshape(-1)
    j, a = kk[0], kk[1]
    idx = jnp.arange(n, dtype=jnp.uint32)
    cell = jnp.where(idx == j, a, jnp.uint32(0))
    return ((cell.astype(jnp.float32) + 0.5) / k).reshape(shape)
  return u


# ---- aggregators ----------------------------------------------------------------------------------------

def _bits_reference(name, levels, trees_q, agg_tree):
  import jax
  leaves = jax.tree_util.tree_leaves(agg_tree)
  nparams = sum(int(np.asarray(l).size) for l in leaves)
  nfloats = 2 * len(leaves)
  if name in ('uniform', 'rotated'):
    return math.log2(levels) * nparams + 32 * nfloats
  if name == 'drive':
    return nparams + 32 * nfloats
  if name == 'terngrad':
    return math.log2(3) * nparams + 32 * nfloats
  if name == 'uniform_arith':
    per_client = []
    for t in trees_q:
      bits = 0.0
      for l in jax.tree_util.tree_leaves(t):
        v = np.nan_to_num(np.asarray(l, np.float64)).flatten()
        uniq, cnt = np.unique(v, return_counts=True)
        pr = cnt / cnt.sum()
        ent = -(pr * np.log2(pr)).sum()
        kk, dd = len(uniq), v.size
        bits += kk * math.log2(math.e * (dd + kk) / kk) + dd * ent + 2 * 32 + 2
      per_client.append(bits)
    return sum(per_client) / len(per_client) if per_client else 0.0
  raise KeyError(name)


class _Interrupted(Exception):
  pass


def aggregator_rounds(case):
  import jax
  import jax.numpy as jnp
  from fedjax.aggregators import compression as comp, walsh_hadamard as wh
  from mc.checks import c07_aggregation as c07
  name, levels, kind, weights, rounds = case['agg'], 4, case['tree'], case['weights'], case['rounds']
  rng0 = jax.random.PRNGKey(case.get('seed', 0) + 11)
  agg = {'uniform': lambda: comp.uniform_stochastic_quantizer(levels, rng0),
         'uniform_arith': lambda: comp.uniform_stochastic_quantizer(levels, rng0, 'arithmetic'),
         'rotated': lambda: comp.rotated_uniform_stochastic_quantizer(levels, rng0),
         'drive': lambda: comp.structured_drive_quantizer(rng0),
         'terngrad': lambda: comp.terngrad_quantizer(rng0)}[name]()
  recorded, keys = [], []

  def wrap(fn, key_pos, record_out):
    def w(*a, **k):
      out = fn(*a, **k)
      if key_pos is not None:
        keys.append(tuple(np.asarray(a[key_pos]).reshape(-1).tolist()))
      if record_out:
        recorded.append(algos.tree_np(out))
      return out
    return w
  patches = []
  if name in ('uniform', 'uniform_arith'):
    patches.append(seams.patched(comp, uniform_stochastic_quantize_pytree=wrap(comp.uniform_stochastic_quantize_pytree, 2, True)))
  elif name == 'terngrad':
    patches.append(seams.patched(comp, terngrad_quantize_pytree=wrap(comp.terngrad_quantize_pytree, 1, True)))
  elif name == 'rotated':
    patches.append(seams.patched(comp, uniform_stochastic_quantize_pytree=wrap(comp.uniform_stochastic_quantize_pytree, 2, False)))
    patches.append(seams.patched(wh, inverse_structured_rotation_pytree=wrap(wh.inverse_structured_rotation_pytree, None, True)))
  else:
    patches.append(seams.patched(wh, structured_rotation_pytree=wrap(wh.structured_rotation_pytree, 1, False)))
    patches.append(seams.patched(wh, inverse_structured_rotation_pytree=wrap(wh.inverse_structured_rotation_pytree, None, True)))
  n = len(weights)
  state = agg.init()
  all_keys = []
  evals = 0
  seam_cap = []
  import contextlib
  with contextlib.ExitStack() as es:
    for p in patches:
      es.enter_context(p)
    for r in range(rounds):
      nc = dict(case, round=r)
      trees = [jax.tree_util.tree_map(lambda l: l.astype(jnp.float32), c07.make_tree(kind, i + 3 * r, case.get('seed', 0), True))
               for i in range(n)]
      if case.get('zero_leaf'):
        trees[0] = jax.tree_util.tree_map(jnp.zeros_like, trees[0])
      if n > 1:
        # an apply whose client stream fails after the first client must not leak into later accounting
        def failing():
          for j, item in enumerate([(b'c%d' % i, t, w) for i, (t, w) in enumerate(zip(trees, weights))]):
            if j == 1:
              raise _Interrupted()
            yield item
        try:
          agg.apply(failing(), state)
        except _Interrupted:
          pass
      recorded.clear()
      keys.clear()
      out, new = agg.apply(iter([(b'c%d' % i, t, w) for i, (t, w) in enumerate(zip(trees, weights))]), state)
      seam_ok = len(recorded) == n and len(keys) == n
      if not seam_ok:
        seam_cap.append('recording seam saw %d quantised trees / %d keys for %d clients' % (len(recorded), len(keys), n))
      tot = float(sum(weights))
      require(out is not None and jax.tree_util.tree_structure(out) == jax.tree_util.tree_structure(trees[0]),
              name + ': the aggregate does not have the structure of the client trees', str(jax.tree_util.tree_structure(trees[0])),
              str(jax.tree_util.tree_structure(out)), case=nc)
      got = [np.asarray(l, np.float64) for l in jax.tree_util.tree_leaves(out)]
      if tot == 0:
        # a round whose clients all carry weight 0 (only empty clients were sampled): the mean is the zero tree, the
        # clients still transmitted their quantised trees (the bit accounting below applies unchanged)
        for g in got:
          require(bool(np.all(g == 0)), name + ': total weight 0 must give the all-zero aggregate', 0, g.tolist(), case=nc)
      for li, g in enumerate(got if tot > 0 else []):
        require(bool(np.all(np.isfinite(g))), name + ': aggregate contains NaN/Inf', case=nc)
        if seam_ok:
          want = sum(np.asarray(jax.tree_util.tree_leaves(q)[li], np.float64) * w for q, w in zip(recorded, weights)) / tot
          require(bool(np.all(np.abs(g - want) <= 1e-5 * (1 + np.abs(want)))), name + ': aggregate is not the weighted mean of '
                  'the per-client quantised trees', want.tolist(), g.tolist(), case=nc)
        exact = sum(np.asarray(jax.tree_util.tree_leaves(t)[li], np.float64) * w for t, w in zip(trees, weights)) / tot
        if name in ('uniform', 'uniform_arith'):
          steps = [(np.asarray(jax.tree_util.tree_leaves(t)[li], np.float64).max() -
                    np.asarray(jax.tree_util.tree_leaves(t)[li], np.float64).min()) / (levels - 1) for t in trees]
          require(bool(np.all(np.abs(g - exact) <= max(steps) * (1 + 1e-5) + 1e-6)), name + ': aggregate further than the '
                  'largest per-client grid step from the exact weighted mean', exact.tolist(), g.tolist(), case=nc)
      if name == 'drive' and seam_ok:
        # structured DRIVE: x_hat = S * R^-1 sign(R x) with S = |x|^2 / |R x|_1, hence <x_hat, x> = |x|^2 for every leaf of
        # every client (an inverse rotation that does not undo the forward one breaks this identity)
        for ci, (q, t) in enumerate(zip(recorded, trees)):
          for ql, tl in zip(jax.tree_util.tree_leaves(q), jax.tree_util.tree_leaves(t)):
            x = np.asarray(tl, np.float64).ravel()
            dot, n2 = float(np.asarray(ql, np.float64).ravel() @ x), float(x @ x)
            require(abs(dot - n2) <= 1e-4 * (1 + n2), 'drive: <x_hat, x> != |x|^2 for a leaf of client %d (the decoded vector is '
                    'not the scaled inverse rotation of the signs)' % ci, n2, dot, case=nc)
      require(len(set(keys)) == len(keys), name + ': two clients were quantised with the same key', case=nc)
      all_keys += keys
      inc = float(new.num_bits) - float(state.num_bits)
      if not seam_ok and name == 'uniform_arith':
        state = new
        evals += 1
        continue
      want_bits = _bits_reference(name, levels, recorded, out)
      require(abs(inc - want_bits) <= 1e-3 * (1 + abs(want_bits)), name + ': reported bit count increased by %r, documented '
              'formula gives %r' % (inc, want_bits), want_bits, inc, case=nc)
      state = new
      evals += 1
  require(len(set(all_keys)) == len(all_keys), name + ': quantisation keys repeat across rounds', case=case)
  info = {'evals': evals, 'nontrivial': len(set(weights)) > 1 or 0 in weights, 'outcome': [name, kind, weights]}
  if seam_cap:
    info['cap'] = seam_cap[0]
  return info


def drive(case):
  """drive_pytree: finite, sign pattern, norm-preserving scale; zero leaves stay zero."""
  import jax.numpy as jnp
  from fedjax.aggregators import compression as comp
  leaf = np.asarray(case['leaf'], np.float32)
  out = comp.drive_pytree({'a': jnp.asarray(leaf), 'b': jnp.ones(4)})
  a = np.asarray(out['a'], np.float64)
  require(bool(np.all(np.isfinite(a))), 'drive_pytree produced NaN/Inf', 'finite', a.tolist())
  l64 = leaf.astype(np.float64)
  s = (l64 ** 2).sum() / np.abs(l64).sum() if np.abs(l64).sum() > 0 else 0.0
  require(bool(np.all(np.abs(a - s * np.sign(l64)) <= 1e-5 * (1 + abs(s)))), 'drive_pytree != (|x|_2^2/|x|_1) sign(x)',
          (s * np.sign(l64)).tolist(), a.tolist())
  return {'evals': 1, 'nontrivial': not leaf.any(), 'outcome': a.round(5).tolist()}


def extreme_draws(case):
  """Boundary answers of the uniform RNG (0, the smallest positive float32, 1/2, the largest float32 below 1) for
  small and very large level counts: support, bounds, on-grid fixpoints must hold for every one of them."""
  import jax
  import jax.numpy as jnp
  from fedjax.aggregators import compression as comp
  levels, lo, hi = case['levels'], case['lo'], case['hi']
  step = (hi - lo) / (levels - 1)
  idx = sorted({0, 1, (levels - 1) // 3, (levels - 1) // 2, levels - 2, levels - 1})
  on_grid = np.asarray([lo + i * step for i in idx], np.float64)
  generic = np.asarray([lo, lo + 0.3 * (hi - lo), lo + 0.77 * (hi - lo), hi], np.float64)
  draws = [0.0, float(np.nextafter(np.float32(0), np.float32(1))), 0.5, float(np.nextafter(np.float32(1), np.float32(0)))]
  evals = 0
  for name, v in (('on_grid', on_grid), ('generic', generic), ('min_max_only', np.asarray([lo, hi, hi, lo], np.float64))):
    v32 = np.asarray(v, np.float32)
    for u in draws:
      nc = dict(case, vec=name, draw=u)

      def const_uniform(key, shape=(), dtype=None, minval=0., maxval=1., u=u):
        return jnp.full(shape, u, jnp.float32)
      with seams.patched(jax.random, uniform=const_uniform):
        out = np.asarray(comp.uniform_stochastic_quantize(jnp.asarray(v32), levels, jax.random.PRNGKey(0)), np.float64)
        if levels == 2:
          outb = np.asarray(comp.binary_stochastic_quantize(jnp.asarray(v32), jax.random.PRNGKey(0)), np.float64)
          _levels_check(outb[None], np.asarray(v32, np.float64), 2, 'binary (draw %r)' % u, nc)
      v64 = np.asarray(v32, np.float64)
      span = v64.max() - v64.min()
      tol = 4e-7 * max(abs(v64.max()), abs(v64.min()), span)  # a few float32 ulps of the magnitudes involved
      require(bool(np.all(np.isfinite(out))), 'uniform: non-finite output', case=nc)
      require(bool(np.all(out >= v64.min() - tol) and np.all(out <= v64.max() + tol)), 'uniform: output outside [min, max] '
              'for draw %r with %d levels' % (u, levels), [v64.min(), v64.max()], out.tolist(), case=nc)
      st = span / (levels - 1)
      require(bool(np.all(np.abs(out - v64) <= st + tol)), 'uniform: error larger than one grid step for draw %r' % u,
              v64.tolist(), out.tolist(), case=nc)
      # exactly representable grid points only: min/max always are; interior points only for few levels on dyadic ranges
      exact_grid = name == 'min_max_only' or (name == 'on_grid' and levels <= 5 and (lo, hi) != (1.0, 1.0 + 2 ** -6))
      if exact_grid:
        require(bool(np.all(np.abs(out - v64) <= tol)), 'uniform: a value already on the grid was moved for draw %r with %d '
                'levels' % (u, levels), v64.tolist(), out.tolist(), case=nc)
      evals += 1
  return {'evals': evals, 'nontrivial': levels > 5, 'outcome': [levels, lo, hi]}


SUBS = {'thresholds': thresholds, 'extreme_draws': extreme_draws, 'quantize_grid': quantize_grid, 'quantize_special': quantize_special, 'aggregator_rounds': aggregator_rounds,
        'drive': drive}
TIMEOUTS = {k: 1500 for k in SUBS}


# sub-spaces re-executed under other interpreter configurations (mc.core.CONFIGS): {configuration: {sub-space: stride}}
# quick tier: every stride-th planned case, thorough tier: all planned cases
CONFIG_PASSES = {'x64': {'quantize_special': 4, 'aggregator_rounds': 4}, 'legacy_prng': {'aggregator_rounds': 4}, 'rbg': {'aggregator_rounds': 4}}


def plan(ctx):
  th = ctx.tier == 'thorough'
  ctx.rule = ('quantize_grid: functions {uniform(L in 2,3,4,5), binary, terngrad} x scale {1,8,1e-3,1e30} x offset {0,-3} x all '
              'vectors over {0,1/4,1/2,3/4,1}^d (d<=3) x ALL K^d joint answers of the grid-uniform seam (K=8); quantize_special: '
              '11 special vectors x per-coordinate 64-point quadrature + 16 real keys; aggregators: 5 aggregators x tree '
              'structures x weights over {0,1,2}^n (n<=3) x 3 rounds; distinct = case tuple')
  ctx.assumptions += ['jax.random.uniform is replaced by the grid seam for the expectation claims (exact mid-point quadrature)',
                      'aggregator claims are checked at the public *_quantize_pytree / rotation boundaries (recording seams)']
  qc = []
  for fn, lv in [('uniform', 2), ('uniform', 3), ('uniform', 4), ('uniform', 5), ('binary', 2), ('terngrad', 2)]:
    for s in (1.0, 8.0, 1e-3, 1e30):
      for o in (0.0, -3.0):
        if o != 0.0 and s in (1e-3, 1e30):
          continue
        if not th and s == 8.0 and o == -3.0:
          continue
        qc.append({'fn': fn, 'levels': lv, 'scale': s, 'offset': o, 'K': 8})
  ctx.pmap('quantize_grid', qc, chunk=2)
  ctx.pmap('thresholds', [{'levels': lv, 'K': 8} for lv in ((2, 3, 5, 9) if th else (2, 3, 5))], chunk=1)
  ctx.pmap('quantize_special', [{'name': n, 'fn': fn, 'levels': lv} for n in SPECIAL
                                for fn, lv in (('uniform', 2), ('uniform', 5), ('binary', 2), ('terngrad', 2))], chunk=4)
  ac = []
  for a in ('uniform', 'uniform_arith', 'rotated', 'drive', 'terngrad'):
    for kind in (('vec', 'mat_scalar', 'nested') if th else ('vec', 'mat_scalar')):
      for n in (1, 2, 3):
        for w in itertools.product((0.0, 1.0, 2.0), repeat=n):
          if (sum(w) == 0 and n == 3 and not th) or (sum(w) > 0 and not th and n == 3 and
                                                     w not in ((1.0, 1.0, 1.0), (0.0, 2.0, 1.0), (2.0, 0.0, 0.0))):
            continue
          ac.append({'agg': a, 'tree': kind, 'weights': list(w), 'rounds': 3, 'seed': ctx.seed})
    ac.append({'agg': a, 'tree': 'vec', 'weights': [1.0, 1.0], 'rounds': 2, 'seed': ctx.seed, 'zero_leaf': True})
  ctx.pmap('aggregator_rounds', ac, chunk=6)
  ctx.run('extreme_draws', [{'levels': lv, 'lo': lo, 'hi': hi} for lv in (2, 3, 5, 256, 2 ** 12, 2 ** 16, 2 ** 20)
                            for lo, hi in ((0.0, 1.0), (-3.0, 5.0), (1.0, 1.0 + 2 ** -6))])
  # more clients in one round than any plausible key batch
  ctx.pmap('aggregator_rounds', [{'agg': a, 'tree': 'vec', 'weights': [1.0] * 70, 'rounds': 2, 'seed': ctx.seed}
                                 for a in ('uniform', 'rotated', 'drive', 'terngrad')], chunk=1)
  ctx.run('drive', [{'leaf': l} for l in ([0.0, 0.0, 0.0, 0.0], [1.0, -2.0, 0.0, 4.0], [0.0], [3.0], [1e-20, -1e-20],
                                           [1e19, 1e19])])

"""E-fault: crash / I/O-fault explorer iterated to a fixpoint of reachable on-disk states.

The harness owns the file-system seam: library modules get a `tf` proxy (TFProxy) whose
`io.gfile` forwards to the REAL tf.io.gfile on a real scratch directory, logs every call as an
*effect* and can kill the run (Crash, a BaseException) before any effect or in the middle of a
GFile.write after persisting exactly a chosen byte prefix.
"""
import os
import shutil


class Crash(BaseException):
  """The simulated process death."""


class InjectedIOError(OSError):
  """A simulated I/O error (the process lives, exceptions propagate)."""


class Injector:
  """Counts effects; carries at most one fault: ('crash', i) | ('crash_lose', i) | ('crash_write', i, p) | ('error', i) |
  ('interrupt', i) | ('exit', i).

  'crash': everything written so far reached the file. 'crash_lose': process death while data still sat in the
  user-space buffers of the open write handles - every open handle keeps only what it had explicitly flushed.
  """

  def __init__(self, fault=None):
    self.fault = fault
    self.trace = []
    self.dead = False
    self.gf_handles = []

  def die(self, lose):
    self.dead = True
    for h in list(self.gf_handles):
      h._kill(lose)  # pylint: disable=protected-access

  def effect(self, kind, name, nbytes=None):
    """Called BEFORE the effect happens. Returns a prefix length for torn writes, else None."""
    i = len(self.trace)
    self.trace.append({'i': i, 'kind': kind, 'name': name, 'nbytes': nbytes,
                       'pending': sum(len(d) for h in self.gf_handles for d in h._pending)})  # pylint: disable=protected-access
    f = self.fault
    if f is not None and f[1] == i:
      if f[0] in ('crash', 'crash_lose'):
        self.die(lose=f[0] == 'crash_lose')
        raise Crash('crash before effect %d %s %s%s' % (i, kind, name, ' (unflushed data lost)' if f[0] == 'crash_lose' else ''))
      if f[0] in ('interrupt', 'exit'):
        # a signal delivered as a Python exception (Ctrl-C -> KeyboardInterrupt, SIGTERM handler / sys.exit -> SystemExit):
        # the process is still alive while it unwinds, so `except` / `finally` / `with` handlers of the library run and
        # may perform further effects before the process ends
        raise (KeyboardInterrupt if f[0] == 'interrupt' else SystemExit)('injected %s before effect %d %s %s' % (f[0], i, kind, name))
      if f[0] == 'error':
        raise InjectedIOError('injected I/O error at effect %d %s %s' % (i, kind, name))
      if f[0] == 'crash_write':
        return f[2]
    return None


class _GFileWrapper:
  """File handle over the real GFile; a torn write persists exactly the chosen prefix."""

  def __init__(self, real_gfile_cls, inj, path, mode='r'):
    self._inj = inj
    self._path = path
    self._mode = mode
    self._dead = False
    self._closed = False
    self._pending = []   # written but not yet flushed/closed: lives in the process, not in the file
    inj.effect('open', '%s:%s' % (os.path.basename(path), mode))
    self._f = real_gfile_cls(path, mode)
    if 'w' in mode or 'a' in mode:
      inj.gf_handles.append(self)

  def write(self, data):
    if self._dead:
      raise Crash('write on a dead handle')
    n = len(data)
    p = self._inj.effect('write', os.path.basename(self._path), n)   # a Crash here kills every open handle
    if p is not None:
      self._pending.append(data[:p])
      self._inj.die(lose=False)
      raise Crash('crash after %d of %d bytes of %s' % (p, n, os.path.basename(self._path)))
    self._pending.append(data)
    return None

  def _persist(self):
    for d in self._pending:
      self._f.write(d)
    self._pending = []

  def _kill(self, lose=False):
    """Process death: the file holds what was flushed, plus (unless `lose`) what was written since."""
    if self._dead:
      return
    self._dead = True
    if self in self._inj.gf_handles:
      self._inj.gf_handles.remove(self)
    try:
      if not lose:
        self._persist()
      self._f.close()
    except Exception:  # pylint: disable=broad-except
      pass

  def read(self, *a):
    return self._f.read(*a)

  def readline(self, *a):
    return self._f.readline(*a)

  def close(self):
    if self._dead or self._closed:
      return
    self._inj.effect('close', os.path.basename(self._path))
    self._closed = True
    if self in self._inj.gf_handles:
      self._inj.gf_handles.remove(self)
    self._persist()
    self._f.close()

  def flush(self):
    if not self._dead:
      self._persist()
      self._f.flush()

  def __enter__(self):
    return self

  def __exit__(self, *exc):
    self.close()
    return False

  def __getattr__(self, name):
    return getattr(self._f, name)


class _GFileModuleProxy:
  def __init__(self, real, inj):
    self._real, self._inj = real, inj

  def GFile(self, path, mode='r'):  # pylint: disable=invalid-name
    return _GFileWrapper(self._real.GFile, self._inj, path, mode)

  def copy(self, src, dst, overwrite=False):
    """A copy is NOT atomic: the destination exists (truncated) while the bytes are transferred. It is modelled as
    open + one write (every prefix can be the crash point) + close on the destination."""
    if not overwrite and self._real.exists(dst):
      return self._real.copy(src, dst, overwrite)  # lets the real function raise
    with self._real.GFile(src, 'rb') as f:
      data = f.read()
    self._inj.effect('gfile', 'copy(%s,%s)' % (os.path.basename(str(src)), os.path.basename(str(dst))))
    with _GFileWrapper(self._real.GFile, self._inj, dst, 'wb') as out:
      out.write(data)

  def __getattr__(self, name):
    fn = getattr(self._real, name)
    if not callable(fn):
      return fn

    def call(*a, **k):
      self._inj.effect('gfile', '%s(%s)' % (name, ','.join(os.path.basename(str(x)) for x in a)))
      return fn(*a, **k)
    return call


class _Stub:
  """Swallows tf.summary.* (TensorBoard is absent in the sandbox; event files are not observed)."""

  def __getattr__(self, name):
    return _Stub()

  def __call__(self, *a, **k):
    return _Stub()

  def __enter__(self):
    return self

  def __exit__(self, *exc):
    return False


class _IOProxy:
  def __init__(self, real_io, inj):
    self._real = real_io
    self.gfile = _GFileModuleProxy(real_io.gfile, inj)

  def __getattr__(self, name):
    return getattr(self._real, name)


class TFProxy:
  def __init__(self, real_tf, inj, stub_summary=True):
    self._real = real_tf
    self.io = _IOProxy(real_tf.io, inj)
    if stub_summary:
      self.summary = _Stub()

  def __getattr__(self, name):
    return getattr(self._real, name)


# ---- directory states ------------------------------------------------------------------------

def snapshot(root):
  out = []
  for dp, _, files in os.walk(root):
    for fn in files:
      p = os.path.join(dp, fn)
      with open(p, 'rb') as f:
        out.append((os.path.relpath(p, root), f.read()))
  return tuple(sorted(out))


def restore(root, state):
  if os.path.exists(root):
    shutil.rmtree(root)
  os.makedirs(root)
  for rel, data in state:
    p = os.path.join(root, rel)
    os.makedirs(os.path.dirname(p), exist_ok=True)
    with open(p, 'wb') as f:
      f.write(data)


def explore(workdir, initial_states, run, faults_for, check_clean, check_state, canon=None, enqueue=None,
            max_states=5000):
  """BFS over on-disk states to a fixpoint.

  run(fault) executes the operation in `workdir` with one injected fault (None = fault free) and returns
  (result, trace); a Crash simply ends the run. For every reachable state: check_state(state); a fault-free
  run must satisfy check_clean(state, result, end_state); then every fault of faults_for(trace) is executed
  from that state and its end state checked; new states are enqueued if enqueue(fault) (default: always).
  """
  canon = canon or (lambda s: s)
  seen = {}
  order = []
  stats = {'states': 0, 'transitions': 0, 'runs': 0, 'faults': 0, 'cap': None, 'checked_only_states': 0,
           'max_crash_depth': 0}
  checked_only = set()
  for s in initial_states:
    k = canon(s)
    if k not in seen:
      seen[k] = (s, 0, None)
      order.append(k)
  qi = 0
  while qi < len(order):
    k = order[qi]
    qi += 1
    state, depth, how = seen[k]
    stats['states'] += 1
    stats['max_crash_depth'] = max(stats['max_crash_depth'], depth)
    check_state(state, how)
    restore(workdir, state)
    result, trace = run(None)
    stats['runs'] += 1
    clean_end = snapshot(workdir)
    check_clean(state, result, clean_end, how)
    ck = canon(clean_end)
    if ck not in seen:
      # the state a completed call leaves behind is a start state as well (calling again: reuse, and faults while reusing)
      seen[ck] = (clean_end, depth, (how or []) + [['ok']])
      order.append(ck)
    for fault in faults_for(trace, depth):
      restore(workdir, state)
      run(fault)
      stats['runs'] += 1
      stats['faults'] += 1
      stats['transitions'] += 1
      end = snapshot(workdir)
      ek = canon(end)
      path = (how or []) + [list(fault)]
      if ek in seen:
        continue
      if enqueue is None or enqueue(fault):
        seen[ek] = (end, depth + 1, path)
        order.append(ek)
        if len(order) >= max_states:
          stats['cap'] = 'max_states=%d' % max_states
          return stats
      elif ek not in checked_only:
        # not expanded further, but still: invariants + a fault-free run from it must give the reference
        checked_only.add(ek)
        stats['checked_only_states'] += 1
        check_state(end, path)
        restore(workdir, end)
        r2, _ = run(None)
        stats['runs'] += 1
        check_clean(end, r2, snapshot(workdir), path)
  return stats

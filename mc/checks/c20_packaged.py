"""C20 - packaged dataset preprocessors and models agree with each other.

E-enum: all snippet lists (Shakespeare), all sentences (StackOverflow), all crop sizes x offsets x
flips (CIFAR-100, against tf.image), all well-formed EMNIST ids; the label ids assumed by each
packaged model's metrics are cross-checked against what its packaged dataset produces; every batch
composition for row independence of the packaged models.
"""
import itertools

import numpy as np

from mc import core, seams
from mc.core import require, Violation, HarnessError

PROPERTY = 'C20'
LEVEL = 'exploration'
_CACHE = {}

SNIP_BYTES = [ord('a'), ord('d'), ord('9'), ord('\r'), 0xFF]


def all_snippets(max_len):
  out = [b'']
  for l in range(1, max_len + 1):
    out += [bytes(t) for t in itertools.product(SNIP_BYTES, repeat=l)]
  return out


def ref_stream(snippets):
  """BOS chars EOS ... label stream with the dataset's documented ids (written independently)."""
  from fedjax.datasets import shakespeare as ds
  vocab = (b'dhlptx@DHLPTX $(,048cgkoswCGKOSW[_#\'/37;?bfjnrvzBFJNRVZ"&*.26:\naeimquyAEIMQUY]!%)-159\r')
  lab = {c: 3 + i for i, c in enumerate(vocab)}
  oov = 3 + len(vocab)
  s = []
  for sn in snippets:
    s.append(1)
    s += [lab.get(c, oov) for c in sn]
    s.append(2)
  return s, oov, oov + 1


def shakespeare_tok(case):
  """Tokeniser: one list length / sequence length; all snippet lists over the alphabet."""
  from fedjax.datasets import shakespeare as ds
  k, seq = case['num_snippets'], case['seq']
  pool = all_snippets(case['max_len'])
  if case.get('all_bytes'):
    # every single byte value (control bytes equal to the reserved label ids included), alone and between two letters
    pool = [bytes([b]) for b in range(256)] + [b'a' + bytes([b]) + b'd' for b in range(256)]
  lists = [case['snippets']] if 'snippets' in case else list(itertools.product(range(len(pool)), repeat=k))
  if 'snippets' not in case:
    lists = lists + lists[::-1]  # history independence: every list is judged again after the lists that followed it
  evals = 0
  outs = set()
  for idxs in lists:
    snippets = [pool[i] for i in idxs]
    nc = dict(case, snippets=list(idxs))
    arr = np.empty(len(snippets), dtype=object)
    for i, s in enumerate(snippets):
      arr[i] = s
    out = ds.preprocess_client(b'id', {'snippets': arr}, seq)
    stream, oov, vsize = ref_stream(snippets)
    require(vsize == ds.VOCAB_SIZE and oov == ds.OOV and (ds.PAD, ds.BOS, ds.EOS) == (0, 1, 2),
            'documented label ids / vocabulary size changed', [90, 89, 0, 1, 2],
            [ds.VOCAB_SIZE, ds.OOV, ds.PAD, ds.BOS, ds.EOS], case=nc)
    x, y = np.asarray(out['x']), np.asarray(out['y'])
    require(x.dtype == np.int32 and y.dtype == np.int32 and x.shape == y.shape and x.ndim == 2 and
            (x.shape[1] == seq), 'x/y shape or dtype', case=nc)
    fx, fy = x.reshape(-1), y.reshape(-1)
    n = max(len(stream) - 1, 0)
    require(len(fx) >= n and len(fx) - n < seq or (n == 0 and len(fx) == 0), 'wrong amount of padding', n, len(fx), case=nc)
    require(fx[:n].tolist() == stream[:-1] and fy[:n].tolist() == stream[1:], 'with padding removed the labels are not the '
            'BOS/characters/EOS stream (targets = inputs shifted by one)', [stream[:-1], stream[1:]],
            [fx[:n].tolist(), fy[:n].tolist()], case=nc)
    require(not fx[n:].any() and not fy[n:].any(), 'padding is not only at the tail / not PAD', case=nc)
    require(bool(np.all((fx >= 0) & (fx < ds.VOCAB_SIZE) & (fy >= 0) & (fy < ds.VOCAB_SIZE))), 'label outside the vocabulary',
            case=nc)
    evals += 1
    outs.add((len(fx), n))
  return {'evals': evals, 'nontrivial': True, 'outcomes': [core.digest(o) for o in sorted(outs)],
          'keys': [[k, seq, i] for i in range(evals)]}


def _eval_stats(model, y, pred):
  """name -> (kind, accum, weight) of every eval metric on a batch (summed over the batch)."""
  import jax.numpy as jnp
  from fedjax.core import metrics
  from mc.ref import metrics_ref as mr
  out = {}
  for name, m in model.eval_metrics.items():
    st = metrics.evaluate_batch(m, {'y': jnp.asarray(y)}, jnp.asarray(pred))
    out[name] = mr.stat_arrays(st)
  return out


def lm_crosscheck(case):
  """Dataset output -> model metrics with crafted logits; denominators/numerators from the DATASET's ids."""
  import jax.numpy as jnp
  which = case['which']
  if which == 'shakespeare':
    from fedjax.datasets import shakespeare as ds
    from fedjax.models import shakespeare as mm
    key = 'shk_model'
    if key not in _CACHE:
      _CACHE[key] = mm.create_lstm_model(lstm_hidden_size=4, embed_size=2, lstm_num_layers=1)
    model = _CACHE[key]
    pool = all_snippets(2)
    snippets = [pool[i] for i in case['snippets']]
    arr = np.empty(len(snippets), dtype=object)
    for i, s in enumerate(snippets):
      arr[i] = s
    out = ds.preprocess_client(b'id', {'snippets': arr}, case['seq'])
    y = np.asarray(out['y'])
    pad, bos, eos, oov, vsize = ds.PAD, ds.BOS, ds.EOS, ds.OOV, ds.VOCAB_SIZE
  else:
    from fedjax.datasets import stackoverflow as ds
    from fedjax.models import stackoverflow as mm
    vocab = ['a', 'b']
    key = 'so_model'
    if key not in _CACHE:
      _CACHE[key] = (mm.create_lstm_model(vocab_size=len(vocab), lstm_hidden_size=4, embed_size=2),
                     ds.DefaultWordTokenizer(vocab))
    model, tok = _CACHE[key]
    words = ['a', 'b', 'zzz']
    sents = [' '.join(words[i] for i in s) for s in case['sentences']]
    ex = {'tokens': np.array([s.encode() for s in sents], dtype=object), 'domain_id': np.zeros(len(sents), np.int32)}
    out = tok.as_preprocess_batch(case['max_length'])(ex)
    y = np.asarray(out['y'])
    x = np.asarray(out['x'])
    pad, bos, eos, oov, vsize = tok.PAD, tok.BOS, tok.EOS, len(vocab) + 3, len(vocab) + 4
    # tokenizer well-formedness against an independent reference
    for r, s in enumerate(case['sentences']):
      ids = [1] + [3 + i if i < 2 else oov for i in s] + [2]
      L = case['max_length']
      wx = (ids[:-1] + [0] * L)[:L]
      wy = (ids[1:] + [0] * L)[:L]
      require(x[r].tolist() == wx and y[r].tolist() == wy, 'StackOverflow tokenizer output differs from BOS/words/EOS '
              'padded or truncated to max_length', [wx, wy], [x[r].tolist(), y[r].tolist()], case=case)
  if y.size == 0:
    return {'evals': 1, 'nontrivial': False}
  require(int(y.max()) < vsize, 'dataset label outside the vocabulary assumed by the model', vsize, int(y.max()), case=case)
  C = vsize
  b, L = y.shape
  perfect = np.full((b, L, C), -5.0, np.float32)
  for i in range(b):
    for t in range(L):
      perfect[i, t, y[i, t]] = 5.0
  stats = _eval_stats(model, y, perfect)
  nonpad = float((y != pad).sum())
  no_eos = float(((y != pad) & (y != eos)).sum())
  n_oov = float(((y == oov) & (y != pad)).sum())
  n_seq = float((y != pad).any(axis=1).sum())
  unpredictable = float((((y == bos) | (y == oov)) & (y != pad) & (y != eos)).sum())

  def chk(name, part, want, what):
    got = float(np.asarray(stats[name][part]).sum())
    require(abs(got - want) <= 1e-4 * (1 + abs(want)), 'metric %s of the packaged %s model: %s computed on the packaged '
            'dataset\'s output disagrees with the dataset\'s PAD/BOS/EOS/OOV ids' % (name, which, what), want, got, case=case)
  chk('num_tokens', 1, nonpad, 'token count')
  chk('sequence_length', 1, nonpad, 'sum of sequence lengths')
  chk('sequence_length', 2, n_seq, 'number of non-empty sequences')
  chk('accuracy_no_eos', 2, no_eos, 'denominator (tokens that are neither PAD nor EOS)')
  chk('accuracy_no_eos', 1, no_eos, 'numerator under perfect prediction')
  chk('token_oov_rate', 1, n_oov, 'numerator (OOV targets)')
  chk('token_oov_rate', 2, nonpad, 'denominator')
  chk('accuracy_in_vocab', 2, no_eos, 'denominator')
  chk('accuracy_in_vocab', 1, no_eos - unpredictable, 'numerator under perfect prediction (BOS/OOV targets cannot be '
      'predicted through the logits mask, every in-vocabulary target can)')
  if which == 'stackoverflow':
    trunc = float(sum(1 for r in range(b) if (y[r] != pad).any() and not (y[r] == eos).any()))
    chk('truncation_rate', 1, trunc, 'number of truncated sentences')
    chk('truncation_rate', 2, n_seq, 'denominator')
  if which == 'stackoverflow' and case.get('second_model', True):
    # history: another packaged model with a different vocabulary is created AFTER this one; this one's metrics must
    # keep reading its own dataset's ids
    from fedjax.models import stackoverflow as mm2
    mm2.create_lstm_model(vocab_size=7, lstm_hidden_size=4, embed_size=2)
    stats_after = _eval_stats(model, y, perfect)
    for name in ('token_oov_rate', 'accuracy_in_vocab', 'accuracy_no_eos', 'num_tokens'):
      for part in (1, 2) if len(stats[name]) > 2 else (1,):
        a, b2 = float(np.asarray(stats[name][part]).sum()), float(np.asarray(stats_after[name][part]).sum())
        require(a == b2, 'metric %s of an existing stackoverflow model changed after another model (other vocabulary size) '
                'was created' % name, a, b2, case=case)
  # always-EOS prediction: accuracy_no_eos numerator must be 0
  always_eos = np.full((b, L, C), -5.0, np.float32)
  always_eos[:, :, eos] = 5.0
  st2 = _eval_stats(model, y, always_eos)
  got = float(np.asarray(st2['accuracy_no_eos'][1]).sum())
  require(got == 0.0, 'accuracy_no_eos counts EOS predictions as correct', 0.0, got, case=case)
  return {'evals': 2, 'nontrivial': True, 'outcome': [nonpad, no_eos, n_oov, unpredictable]}


def cifar(case):
  """Centre crop vs tf.image; distorted crops over all offsets x flips with the scripted numpy RNG."""
  import tensorflow as tf
  from fedjax.datasets import cifar100 as ds
  h, w = case['h'], case['w']
  imgs = _images(case.get('seed', 0))
  evals = 0
  seam_cap = []
  for name in ([case['image']] if 'image' in case else list(imgs)):
    nc = dict(case, image=name)
    batch = np.stack([imgs[name], imgs['random']])
    got = ds.preprocess_image_tff(batch, h, w, distort=False)
    want = tf.image.per_image_standardization(
        tf.image.resize_with_crop_or_pad(tf.convert_to_tensor(batch), h, w)).numpy()
    require(got.shape == (2, h, w, 3) and got.dtype == np.float32, 'eval preprocessing: shape/dtype', [2, h, w, 3],
            list(got.shape), case=nc)
    require(bool(np.all(np.isfinite(got))) and float(np.max(np.abs(got - want))) <= 2e-4 * (1 + float(np.max(np.abs(want)))),
            'eval preprocessing differs from tf.image.per_image_standardization of the centre crop (max abs diff %.4g)'
            % float(np.max(np.abs(got - want))), np.asarray(want[0, :1, :2]).tolist(), np.asarray(got[0, :1, :2]).tolist(),
            case=nc)
    evals += 1
    if case.get('distort'):
      for i in range(0, 32 - h + 1):
        for j in range(0, 32 - w + 1):
          for flip in (0, 1):
            if 'offset' in case and case['offset'] != [i, j, flip]:
              continue
            calls = []

            def uniform(high=None, size=None, low=0.0, i=i, j=j):
              calls.append('uniform')
              return np.array([i, j, 0], np.float64)

            def randint(*a, flip=flip, **k):
              calls.append('randint')
              return flip
            with seams.patched(ds, np=seams.np_proxy(None, uniform=uniform, randint=randint)):
              got = ds.preprocess_image_tff(batch, h, w, distort=True)
            if sorted(calls) != ['randint', 'uniform']:
              # the implementation draws its crop/flip differently: offsets cannot be scripted; only shape and
              # "is a standardised sub-window at SOME offset" can still be judged
              seam_cap.append(calls)
              require(got.shape == (2, h, w, 3), 'training crop does not have the requested shape', [2, h, w, 3],
                      list(got.shape), case=dict(nc, offset=[i, j, flip]))
              continue
            sub = batch[:, i:i + h, j:j + w, :]
            if flip:
              sub = sub[:, :, ::-1, :]
            want = tf.image.per_image_standardization(tf.convert_to_tensor(sub)).numpy()
            require(got.shape == (2, h, w, 3), 'training crop does not have the requested shape', [2, h, w, 3],
                    list(got.shape), case=dict(nc, offset=[i, j, flip]))
            require(float(np.max(np.abs(got - want))) <= 2e-4 * (1 + float(np.max(np.abs(want)))),
                    'training crop is not the standardised sub-window at the drawn offset', None, None,
                    case=dict(nc, offset=[i, j, flip]))
            evals += 1
  info = {'evals': evals, 'nontrivial': True, 'outcome': [h, w], 'keys': [[h, w, n] for n in imgs]}
  if seam_cap:
    info['cap'] = 'numpy RNG seam of cifar100 not reached as expected (%r): offsets not scripted' % (seam_cap[0],)
  return info


def cifar_invalid(case):
  from fedjax.datasets import cifar100 as ds
  batch = np.zeros((1, 32, 32, 3), np.uint8)
  try:
    ds.preprocess_image_tff(batch, case['h'], case['w'], distort=case['distort'])
  except ValueError:
    return {'evals': 1, 'outcome': 'ValueError'}
  raise Violation('invalid crop size was accepted', 'ValueError', 'a value')


def _images(seed):
  rs = np.random.RandomState(1234 + seed)
  rand = rs.randint(0, 256, size=(32, 32, 3)).astype(np.uint8)
  low = np.where(rs.randint(0, 2, size=(32, 32, 3)) > 0, 120, 121).astype(np.uint8)
  const = np.full((32, 32, 3), 77, np.uint8)
  ext = np.where(rs.randint(0, 2, size=(32, 32, 3)) > 0, 0, 255).astype(np.uint8)
  hot = np.zeros((32, 32, 3), np.uint8)
  hot[16, 16, 1] = 255
  black = np.zeros((32, 32, 3), np.uint8)
  return {'random': rand, 'low_contrast': low, 'constant': const, 'extremes': ext, 'one_hot_pixel': hot, 'black': black}


def emnist_ids(case):
  from fedjax.datasets import emnist as ds
  evals = 0
  lo, hi = case['range']
  for n in range(lo, hi):
    for suffix in (b'00', b'99'):
      # 'long' ids carry a 16-hex-digit hash prefix; the hash itself may contain 'f' followed by digits that look like a
      # writer number on the other side (or the same side) of the documented range
      for fmt in ('short', 'long', 'long_f_inside', 'long_f_outside', 'long_upper'):
        cid = b'f%04d_%s' % (n, suffix)
        if fmt == 'long':
          cid = b'0123456789abcdef:' + cid
        elif fmt == 'long_f_inside':
          cid = b'85328f2121e5989a:' + cid
        elif fmt == 'long_f_outside':
          cid = b'00f0000f9999aaaa:' + cid
        elif fmt == 'long_upper':
          cid = b'0F2100F0000ABCDE:' + cid
        want = 0 if 2100 <= n <= 2599 else 1
        got = ds.domain_id(cid)
        require(got == want, 'EMNIST domain id of %r' % cid, want, got, case=dict(case, range=[n, n + 1]))
        evals += 1
  for bad in (b'', b'f123_00', b'f00001_00', b'x' * 24, b'x' * 26):
    try:
      ds.domain_id(bad)
    except ValueError:
      continue
    raise Violation('malformed EMNIST client id %r was accepted' % bad)
  ex = {'label': np.array([1, 2], np.int32), 'pixels': np.ones((2, 28, 28), np.float32)}
  out = ds.preprocess_batch(ds.preprocess_client(b'f2100_01', ex))
  require(out['domain_id'].tolist() == [0, 0] and out['x'].shape == (2, 28, 28, 1) and not out['x'].any(),
          'EMNIST preprocess_client/preprocess_batch', case=case)
  return {'evals': evals, 'nontrivial': lo <= 2100 < hi or lo <= 2599 < hi, 'outcome': [lo, hi]}


def load_data(case):
  """The public loaders over a pre-populated cache directory (no network): train and test splits hold the SAME client ids
  with DIFFERENT content; every client of both splits, read in either order and interleaved, is preprocessed from its own
  split's examples."""
  import os
  import shutil
  import tempfile
  from fedjax.core import sqlite_federated_data as sq
  which = case['which']
  tmp = tempfile.mkdtemp(prefix='c20_ld_')
  evals = 0
  try:
    ids = [b'f2100_00', b'f2599_11', b'f0000_05', b'f3599_99'] if which == 'emnist' else [b'THE_KING', b'A_LORD', b'', b'x\x00']
    raw = {}
    for split in ('train', 'test'):
      tab = {}
      for i, cid in enumerate(ids):
        n = (i + (split == 'test')) % 3 + (1 if which == 'emnist' else 0)
        if which == 'shakespeare':
          arr = np.empty(n, dtype=object)
          for j in range(n):
            arr[j] = (b'tr' if split == 'train' else b'TE!') + bytes([97 + i, 98 + j]) * (j + 1)
          tab[cid] = {'snippets': arr}
        else:
          px = np.zeros((n, 28, 28), np.float32)
          px[:, i, :] = 0.25 if split == 'train' else 0.75
          tab[cid] = {'pixels': px, 'label': (np.arange(n, dtype=np.int32) + i + (10 if split == 'test' else 0))}
      raw[split] = tab
      name = 'shakespeare_%s.sqlite' % split if which == 'shakespeare' else 'federated_emnist_%s%s.sqlite' % ('digitsonly_' if case.get('digits') else '', split)
      with sq.SQLiteFederatedDataBuilder(os.path.join(tmp, name)) as b:
        b.add_many(list(tab.items()))
    if which == 'shakespeare':
      from fedjax.datasets import shakespeare as ds
      train, test = ds.load_data(sequence_length=case.get('seq', 5), cache_dir=tmp)

      def check(split, cid, ex):
        snippets = list(raw[split][cid]['snippets'])
        stream, _, _ = ref_stream(snippets)
        n = max(len(stream) - 1, 0)
        fx, fy = np.asarray(ex['x']).reshape(-1), np.asarray(ex['y']).reshape(-1)
        require(fx[:n].tolist() == stream[:-1] and fy[:n].tolist() == stream[1:] and not fx[n:].any(),
                'load_data(): client %r of the %s split does not hold the label stream of its own %s snippets' % (cid, split, split),
                [stream[:-1]], [fx.tolist()], case=dict(case, client=cid.hex(), split=split))
    else:
      from fedjax.datasets import emnist as ds
      train, test = ds.load_data(only_digits=bool(case.get('digits')), cache_dir=tmp)

      def check(split, cid, ex):
        want = raw[split][cid]
        dom = 0 if 2100 <= int(cid[1:5]) <= 2599 else 1
        ok = (np.asarray(ex['y']).tolist() == want['label'].tolist() and np.asarray(ex['x']).shape == (len(want['label']), 28, 28, 1) and
              np.allclose(np.asarray(ex['x'])[..., 0], 1 - want['pixels']) and np.asarray(ex['domain_id']).tolist() == [dom] * len(want['label']))
        require(ok, 'load_data(): client %r of the %s split is not the preprocessed form of its own %s examples' % (cid, split, split),
                want['label'].tolist(), np.asarray(ex['y']).tolist(), case=dict(case, client=cid.hex(), split=split))
    fds = {'train': train, 'test': test}
    orders = {'train_first': [('train', c) for c in ids] + [('test', c) for c in ids],
              'test_first': [('test', c) for c in ids] + [('train', c) for c in ids],
              'interleaved': [(s_, c) for c in ids for s_ in ('test', 'train', 'test')]}
    for cid_split in orders[case['order']]:
      split, cid = cid_split
      check(split, cid, fds[split].get_client(cid).all_examples())
      evals += 1
    for split in (('test', 'train') if case['order'] == 'test_first' else ('train', 'test')):
      got = {cid: d.all_examples() for cid, d in fds[split].clients()}
      require(sorted(got) == sorted(ids), 'load_data(): client ids of the %s split' % split, case=case)
      for cid in ids:
        check(split, cid, got[cid])
        evals += 1
    for fd in fds.values():
      c = getattr(fd, '_connection', None)
      if c is not None:
        c.close()
  finally:
    shutil.rmtree(tmp, ignore_errors=True)
  return {'evals': evals, 'nontrivial': True, 'outcome': [which, case['order']]}


def _model(name):
  if ('m', name) in _CACHE:
    return _CACHE[('m', name)]
  import jax
  from fedjax.models import emnist, cifar100, shakespeare, stackoverflow
  rs = np.random.RandomState(7)
  if name.startswith('emnist'):
    m = {'emnist_conv': lambda: emnist.create_conv_model(True), 'emnist_dense': lambda: emnist.create_dense_model(True, 8),
         'emnist_logistic': lambda: emnist.create_logistic_model(True),
         'emnist_stax': lambda: emnist.create_stax_dense_model(True, 8)}[name]()
    pool = [{'x': rs.rand(28, 28, 1).astype(np.float32), 'y': np.int32(i)} for i in range(3)]
  elif name == 'cifar_logistic':
    m = cifar100.create_logistic_model()
    pool = [{'x': rs.randn(24, 24, 3).astype(np.float32), 'y': np.int32(i)} for i in range(3)]
  elif name == 'shakespeare_lstm':
    m = shakespeare.create_lstm_model(lstm_hidden_size=8, embed_size=4, lstm_num_layers=2)
    pool = [{'x': rs.randint(3, 90, size=(5,)).astype(np.int32), 'y': rs.randint(3, 90, size=(5,)).astype(np.int32)}
            for _ in range(3)]
    for r, npad in ((1, 2), (2, 4)):   # rows with trailing padding (PAD = 0): batches made only of padded rows occur
      pool[r]['x'][5 - npad:] = 0
      pool[r]['y'][5 - npad:] = 0
  else:
    m = stackoverflow.create_lstm_model(vocab_size=10, lstm_hidden_size=8, embed_size=4,
                                        share_input_output_embeddings=name.endswith('shared'))
    pool = [{'x': rs.randint(3, 14, size=(4,)).astype(np.int32), 'y': rs.randint(3, 14, size=(4,)).astype(np.int32)}
            for _ in range(3)]
    for r, npad in ((1, 1), (2, 3)):
      pool[r]['x'][4 - npad:] = 0
      pool[r]['y'][4 - npad:] = 0
  params = m.init(jax.random.PRNGKey(0))
  _CACHE[('m', name)] = (m, params, pool)
  return _CACHE[('m', name)]


def row_independence(case):
  """Every batch of <=3 rows with repetition: row i of apply_for_eval == the singleton-batch output."""
  name = case['model']
  m, params, pool = _model(name)
  one = lambda e: {k: np.asarray(v)[None] for k, v in e.items()}
  single = [np.asarray(m.apply_for_eval(params, one(e)))[0] for e in pool]
  # the per-example training loss of a row, computed with the row alone in the batch
  single_loss = [float(np.asarray(m.train_loss(one(e), m.apply_for_eval(params, one(e))))[0]) for e in pool]
  evals = 0
  for n in (1, 2, 3):
    for idxs in itertools.product(range(3), repeat=n):
      if 'rows' in case and case['rows'] != list(idxs):
        continue
      batch = {k: np.stack([np.asarray(pool[i][k]) for i in idxs]) for k in pool[0]}
      out = np.asarray(m.apply_for_eval(params, batch))
      for r, i in enumerate(idxs):
        require(bool(np.allclose(out[r], single[i], rtol=1e-4, atol=1e-5)), 'model %s: the score of a row depends on the other '
                'rows in the batch' % name, single[i].reshape(-1)[:5].tolist(), out[r].reshape(-1)[:5].tolist(),
                case=dict(case, rows=list(idxs)))
      loss = np.asarray(m.train_loss(batch, out))
      require(loss.shape == (n,), 'model %s: train_loss is not one value per row' % name, [n], list(loss.shape),
              case=dict(case, rows=list(idxs)))
      if n >= 2:
        # one very confident row (logits scaled by 200) next to ordinary rows: the ordinary rows keep their own loss
        sharp = np.array(out, copy=True)
        sharp[0] = sharp[0] * 200.0
        lsharp = np.asarray(m.train_loss(batch, sharp))
        for r, i in enumerate(idxs):
          if r == 0:
            continue
          require(np.isfinite(lsharp[r]) and abs(float(lsharp[r]) - single_loss[i]) <= 1e-4 * (1 + abs(single_loss[i])),
                  'model %s: the training loss of a row changes when ANOTHER row of the batch has very large logits' % name,
                  single_loss[i], float(lsharp[r]), case=dict(case, rows=list(idxs)))
      for r, i in enumerate(idxs):
        require(abs(float(loss[r]) - single_loss[i]) <= 1e-4 * (1 + abs(single_loss[i])), 'model %s: the training loss of a row '
                'depends on the other rows in the batch' % name, single_loss[i], float(loss[r]), case=dict(case, rows=list(idxs)))
      evals += 1
  return {'evals': evals, 'nontrivial': True, 'outcome': name}


def so_tokenizer_orders(case):
  """One tokenizer object serving several max_length values: the functions are created in every order and first used in
  every order (documented usage: train and eval functions built from one tokenizer before either runs); each must pad /
  truncate to ITS length."""
  from fedjax.datasets import stackoverflow as ds
  vocab = ['a', 'b']
  lengths = case['lengths']
  sents = [[0], [0, 1, 2], [2, 2, 1, 0, 1]]
  words = ['a', 'b', 'zzz']
  toks = np.array([' '.join(words[i] for i in st).encode() for st in sents], dtype=object)
  oov = len(vocab) + 3

  def want(L):
    xs, ys = [], []
    for st in sents:
      ids = [1] + [3 + i if i < 2 else oov for i in st] + [2]
      xs.append((ids[:-1] + [0] * L)[:L])
      ys.append((ids[1:] + [0] * L)[:L])
    return xs, ys
  evals = 0
  for api in ('as_preprocess_batch', 'create_token_to_ids_fn'):
    for create_order in itertools.permutations(lengths):
      for use_order in (itertools.permutations(lengths) if case.get('all_use_orders', True) else (tuple(lengths), tuple(reversed(lengths)))):
        nc = dict(case, api=api, create_order=list(create_order), use_order=list(use_order))
        tok = ds.DefaultWordTokenizer(vocab)
        fns = {L: getattr(tok, api)(L) for L in create_order}
        for rep in range(2):
          for L in use_order:
            if api == 'as_preprocess_batch':
              out = fns[L]({'tokens': toks, 'domain_id': np.zeros(len(sents), np.int32)})
              x, y = np.asarray(out['x']), np.asarray(out['y'])
            else:
              x, y = [np.asarray(v) for v in fns[L](toks)]
            wx, wy = want(L)
            require(x.tolist() == wx and y.tolist() == wy, '%s(%d) of a tokenizer that also serves lengths %r does not pad / '
                    'truncate to its own max_length' % (api, L, [l for l in lengths if l != L]), [wx, wy],
                    [x.tolist(), y.tolist()], case=nc)
        evals += 1
  return {'evals': evals, 'nontrivial': len(lengths) > 1, 'outcome': lengths}


SUBS = {'load_data': load_data, 'so_tokenizer_orders': so_tokenizer_orders, 'shakespeare_tok': shakespeare_tok, 'lm_crosscheck': lm_crosscheck, 'cifar': cifar, 'cifar_invalid': cifar_invalid,
        'emnist_ids': emnist_ids, 'row_independence': row_independence}
TIMEOUTS = {k: 1500 for k in SUBS}


# sub-spaces re-executed under other interpreter configurations (mc.core.CONFIGS): {configuration: {sub-space: stride}}
# quick tier: every stride-th planned case, thorough tier: all planned cases
CONFIG_PASSES = {'x64': {'cifar': 8, 'row_independence': 2, 'lm_crosscheck': 25}}


def plan(ctx):
  th = ctx.tier == 'thorough'
  ctx.rule = ('Shakespeare: all lists of <=%d snippets of length <=%d over bytes {a,d,9,\\\\r,0xFF} x sequence lengths 2..6; '
              'model cross-check on all lists of <=2 snippets (len<=2) x sequence lengths; StackOverflow: all lists of <=2 '
              'sentences of <=3 words over {a,b,OOV} x max_length 2..4; CIFAR-100: crop sizes (quick {1,2,23,24,31,32}^2, '
              'thorough 1..32^2) x 6 images, distorted crops over all offsets x flips; EMNIST: all 10000 writer ids x 5 formats (hash prefixes that contain f+digits) x '
              '2 suffixes; row independence: 8 packaged models x all batches of <=3 rows' % (3 if th else 2, 3 if th else 2))
  ctx.assumptions += ['tf.image.per_image_standardization / resize_with_crop_or_pad are the oracle for CIFAR-100',
                      'packaged LSTM models are instantiated with small hidden sizes (metrics do not depend on them)']
  ctx.pmap('load_data', [{'which': w, 'order': o, **kw} for w, kws in (('shakespeare', ({'seq': 5}, {'seq': 3})), ('emnist', ({}, {'digits': True})))
                         for kw in kws for o in ('train_first', 'test_first', 'interleaved')], chunk=3)
  ml = 3 if th else 2
  tk = [{'num_snippets': k, 'seq': s, 'max_len': ml if k < 3 else 1} for k in ((0, 1, 2, 3) if th else (0, 1, 2))
        for s in range(2, 7)]
  tk += [{'num_snippets': 1, 'seq': sq, 'max_len': 1, 'all_bytes': True} for sq in (2, 5)]
  ctx.pmap('shakespeare_tok', tk, chunk=1)
  pool2 = len(all_snippets(2))
  lc = []
  for k in (1, 2):
    for idxs in itertools.product(range(pool2), repeat=k):
      if k == 2 and not th and (idxs[0] % 5 or idxs[1] % 3):
        continue
      for s in ((2, 3, 5) if th else (3,)):
        lc.append({'which': 'shakespeare', 'snippets': list(idxs), 'seq': s})
  # sentences have >= 1 word: tf.strings.split('') yields one empty token (an OOV word), which the property does not speak about
  sents = [list(t) for l in range(1, 4) for t in itertools.product(range(3), repeat=l)]
  for a in sents:
    for ml_ in (2, 3, 4):
      lc.append({'which': 'stackoverflow', 'sentences': [a], 'max_length': ml_})
  for a, b in itertools.product(sents[:13], repeat=2):
    if th or (len(a) + len(b)) % 2 == 0:
      lc.append({'which': 'stackoverflow', 'sentences': [a, b], 'max_length': 3})
  ctx.pmap('lm_crosscheck', lc, chunk=40)
  sizes = list(range(1, 33)) if th else [1, 2, 23, 24, 31, 32]
  cc = []
  for h in sizes:
    for w in sizes:
      cc.append({'h': h, 'w': w, 'seed': ctx.seed, 'distort': (h >= 29 and w >= 29) or (h, w) in ((24, 24), (1, 32))
                 if not th else (h + w) >= 56 or (h, w) == (24, 24)})
  ctx.pmap('cifar', cc, chunk=4)
  ctx.run('cifar_invalid', [{'h': h, 'w': w, 'distort': d} for h, w in ((0, 5), (5, 0), (33, 5), (5, 33), (-1, 5)) for d in (False, True)])
  ctx.pmap('so_tokenizer_orders', [{'lengths': ls, 'all_use_orders': th or len(ls) < 3}
                                   for ls in ([[2, 4], [4, 7, 20], [3, 3]] if not th else
                                              [[2, 4], [4, 7, 20], [3, 3], [1, 2, 5], [20, 30]])], chunk=1)
  ctx.pmap('emnist_ids', [{'range': [a, a + 1000]} for a in range(0, 10000, 1000)], chunk=1)
  ctx.pmap('row_independence', [{'model': m} for m in ('emnist_conv', 'emnist_dense', 'emnist_logistic', 'emnist_stax',
                                                       'cifar_logistic', 'shakespeare_lstm', 'stackoverflow_lstm',
                                                       'stackoverflow_lstm_shared')], chunk=1)

"""C09 - an interrupted experiment resumes to the uninterrupted result.

E-fault: the real run_federated_experiment is driven over a tf.io.gfile seam; a crash is injected
before every effect and after every byte prefix of every file write; the set of reachable root_dir
states is closed under "run again with one more crash" (fixpoint), so any number of successive
crashes is covered. From every reachable state a fault-free call must return the reference final
state and write the reference final-evaluation file.
"""
import hashlib
import itertools
import os
import pickle
import re
import shutil
import tempfile

import numpy as np

from mc import core, fault, seams
from mc.core import require, Violation, HarnessError

PROPERTY = 'C09'
LEVEL = 'fault_enumeration'

CKPT_RE = re.compile(r'^checkpoint_[0-9]{8}$')


def _h(*parts):
  return int(hashlib.sha1(repr(parts).encode()).hexdigest()[:12], 16)


def make_fd():
  import fedjax
  table = {}
  for k, cid in enumerate([b'a', b'a\x00', b'b', b'c']):
    table[cid] = {'x': np.arange(k + 1, dtype=np.int32) + 10 * k}
  return fedjax.InMemoryFederatedData(table)


_PRISTINE = {}


def _forget_module_state(mods):
  """Puts the module-level variables of `mods` back to their import-time values: names bound later are removed,
  rebound names are restored, plain containers (dict/list/set - the usual memo tables) are restored from a deep copy
  taken at first use, functools caches are cleared."""
  import copy
  for m in mods:
    if m.__name__ not in _PRISTINE:
      snap = {}
      for k, v in vars(m).items():
        if isinstance(v, (dict, list, set)) and not k.startswith('__'):
          try:
            snap[k] = ('copy', copy.deepcopy(v))
            continue
          except Exception:  # pylint: disable=broad-except
            pass
        snap[k] = ('ref', v)
      _PRISTINE[m.__name__] = snap
      continue
    snap = _PRISTINE[m.__name__]
    for k in [k for k in vars(m) if k not in snap and not k.startswith('__')]:
      delattr(m, k)
    for k, (how, v) in snap.items():
      if k.startswith('__'):
        continue
      setattr(m, k, copy.deepcopy(v) if how == 'copy' else v)
      if how == 'ref' and hasattr(v, 'cache_clear'):
        try:
          v.cache_clear()
        except Exception:  # pylint: disable=broad-except
          pass


class Harness:
  """Builds the experiment pieces; every run gets fresh sampler objects."""

  def __init__(self, cfg, workdir, algo_kind='toy'):
    import fedjax
    from fedjax.training import federated_experiment as fe
    self.cfg = cfg
    self.workdir = workdir
    self.fd = make_fd()
    self.kind = algo_kind
    self.fe = fe
    harness = self
    self._eval_classes(fe)
    if algo_kind == 'toy':
      def init():
        return {'h': 0, 'hist': []}

      def apply(state, clients):
        harness.inj.effect('step', 'algorithm.apply')
        sig = tuple((bytes(c), len(d), np.asarray(k).tolist()) for c, d, k in clients)
        return {'h': _h(state['h'], sig), 'hist': state['hist'] + [len(clients)]}, {}
      self.algorithm = fedjax.FederatedAlgorithm(init, apply)
      self.init_state = init()
    elif algo_kind == 'weak':
      # a state made of JAX arrays in reduced precision plus weakly typed scalars (jnp.asarray(0.9)): what a resumed run
      # computes depends on the restored leaves having the same dtypes AND the same weak-type flags
      import jax.numpy as jnp

      def init():
        return {'w': jnp.asarray([1.0, -0.5, 0.25], jnp.bfloat16), 'decay': jnp.asarray(0.9), 'round': jnp.asarray(0)}

      def apply(state, clients):
        harness.inj.effect('step', 'algorithm.apply')
        sig = tuple((bytes(c), len(d), np.asarray(k).tolist()) for c, d, k in clients)
        bump = (_h(0, sig) % 13) / 8.0
        return {'w': state['w'] * state['decay'] + bump * (state['round'] + 1), 'decay': state['decay'],
                'round': state['round'] + 1}, {}
      self.algorithm = fedjax.FederatedAlgorithm(init, apply)
      self.init_state = init()
    else:
      import jax.numpy as jnp
      from fedjax.algorithms import fed_avg

      def loss(params, batch, rng):
        return (batch['x'].astype(jnp.float32) * params['w'] - 1.0) ** 2
      inner = fed_avg.federated_averaging(fedjax.grad(loss), fedjax.optimizers.sgd(0.01),
                                          fedjax.optimizers.sgd(1.0, momentum=0.5),
                                          fedjax.ShuffleRepeatBatchHParams(batch_size=2, num_epochs=1, seed=0))

      def apply(state, clients):
        harness.inj.effect('step', 'algorithm.apply')
        return inner.apply(state, clients)
      self.algorithm = fedjax.FederatedAlgorithm(inner.init, apply)
      self.init_state = inner.init({'w': jnp.asarray(0.5)})
    self.inj = fault.Injector()
    # reference: an independent loop over rounds
    self.ref_states = {0: self.init_state}
    st = self.init_state
    for r in range(1, cfg['num_rounds'] + 1):
      s = fedjax.client_samplers.UniformGetClientSampler(self.fd, 2, seed=3, start_round_num=r)
      st, _ = self.algorithm.apply(st, s.sample())
      self.ref_states[r] = st
    self.ref_final = self.state_digest(self.ref_states[cfg['num_rounds']])
    self.ref_tsv = 'hash\tround\ttag\n%s\t%d\tfinal' % (self.ref_final, cfg['num_rounds'])

  def _eval_classes(self, fe):
    """Evaluation functions as subclasses of the (possibly re-executed) module's base classes."""
    harness = self

    class HashEval(fe.EvaluationFn):
      def __init__(self, tag):
        self.tag = tag

      def __call__(self, state, round_num):
        harness.inj.effect('eval', '%s@%d' % (self.tag, round_num))
        return {'hash': harness.state_digest(state), 'round': round_num, 'tag': self.tag}

    class TrainEval(fe.TrainClientsEvaluationFn):
      def __call__(self, state, round_num, train_clients):
        harness.inj.effect('eval', 'train@%d' % round_num)
        return {'n': len(train_clients)}
    self.HashEval, self.TrainEval = HashEval, TrainEval

  def state_digest(self, state):
    import jax
    leaves = jax.tree_util.tree_leaves(state)
    return hashlib.sha1(repr([(str(getattr(l, 'dtype', type(l).__name__)), np.asarray(l, np.float64).tolist() if
                               hasattr(l, 'dtype') else l) for l in leaves]).encode()).hexdigest()[:16]

  def run(self, flt, injector_cls=None):
    """One run_federated_experiment call in self.workdir with at most one injected fault."""
    import fedjax
    import tensorflow as real_tf
    from fedjax.core import serialization
    from fedjax.training import checkpoint, federated_experiment as fe, logging as flog
    # every call is a NEW process in reality (the previous one may have crashed): whatever the training modules keep in
    # module-level variables is gone - their globals are put back to what they were right after import.
    import sys
    _forget_module_state([m for n, m in sorted(sys.modules.items()) if m is not None and (n == 'fedjax' or n.startswith('fedjax.'))
                          and not n.endswith('_test')])
    self.inj = inj = (injector_cls or fault.Injector)(flt)
    proxy = fault.TFProxy(real_tf, inj)
    sampler = fedjax.client_samplers.UniformGetClientSampler(self.fd, 2, seed=3)
    harness = self

    class SamplerSeam:
      def sample(self):
        inj.effect('step', 'sampler.sample')
        return sampler.sample()

      def set_round_num(self, r):
        return sampler.set_round_num(r)
    cfg = self.cfg
    # the same directory may be spelled with a trailing slash or a redundant './' component
    root = {'slash': self.workdir + '/', 'dot': os.path.join(os.path.dirname(self.workdir), '.', os.path.basename(self.workdir))}.get(
        cfg.get('root_spelling'), self.workdir)
    config = fe.FederatedExperimentConfig(root_dir=root, num_rounds=cfg['num_rounds'],
                                          checkpoint_frequency=cfg['ckpt'], num_checkpoints_to_keep=cfg['keep'],
                                          eval_frequency=cfg['eval'])
    periodic = {'p': self.HashEval('periodic'), 't': self.TrainEval()} if cfg['eval'] else None
    the_sampler = SamplerSeam()
    if cfg.get('shared_eval') and periodic is not None:
      # the library's sampled-clients evaluation on the SAME round-indexed sampler object that drives training (it
      # re-seats the sampler at the evaluated round, which leaves it where the training loop expects it)
      import jax.numpy as jnp
      model = fedjax.Model(init=lambda rng: {'w': jnp.asarray(0.5)}, apply_for_train=lambda p, b, r=None: b['x'] * p['w'],
                           apply_for_eval=lambda p, b: b['x'] * p['w'], train_loss=lambda b, o: o * 0.0, eval_metrics={})
      periodic['ms'] = fe.ModelSampleClientsEvaluationFn(the_sampler, model, fedjax.PaddedBatchHParams(batch_size=2))
    result = None
    try:
      with seams.patched(serialization, tf=proxy), seams.patched(checkpoint, tf=proxy), \
           seams.patched(fe, tf=proxy), seams.patched(flog, tf=proxy):
        result = ('ok', fe.run_federated_experiment(self.algorithm, self.init_state, the_sampler, config,
                                                    periodic_eval_fn_map=periodic,
                                                    final_eval_fn_map={'final': self.HashEval('final')}))
    except fault.Crash:
      result = ('crash', None)
    except (KeyboardInterrupt, SystemExit):
      if not (flt and flt[0] in ('interrupt', 'exit')):
        raise
      result = ('crash', None)   # the interrupted process ends here, after whatever its handlers did on the way out
    return result, inj.trace


def load_pickle(data):
  return pickle.loads(data)


def explore(case):
  cfg = case['cfg']
  kind = case.get('algo', 'toy')
  base = tempfile.mkdtemp(prefix='c09_')
  workdir = os.path.join(base, 'root')
  try:
    h = Harness(cfg, workdir, kind)
    nr = cfg['num_rounds']
    stray = (('checkpoint_123', b'junk'), ('checkpoint_000000010', b'junk'), ('checkpoint_00000001.bak', b'junk'),
             ('notes.txt', b'x'))
    initial = [()]
    if case.get('stray'):
      initial.append(tuple(sorted(stray)))
    stray_names = {n for n, _ in stray}

    def nc(how):
      return dict(case, crashes=how)

    def check_state(state, how):
      """Invariants of every reachable root_dir."""
      ck = sorted(n for n, _ in state if CKPT_RE.match(n))
      for n, data in state:
        if not CKPT_RE.match(n):
          continue
        r = int(n.split('_')[1])
        require(1 <= r <= nr, 'checkpoint for a round outside 1..num_rounds is visible: %s' % n, case=nc(how))
        try:
          st = load_pickle(data)
        except Exception as e:  # pylint: disable=broad-except
          raise Violation('checkpoint file %s is visible under its final name but is not loadable (%s: %s; %d bytes)'
                          % (n, type(e).__name__, e, len(data)), 'a complete checkpoint', '%d bytes' % len(data),
                          case=nc(how))
        require(h.state_digest(st) == h.state_digest(h.ref_states[r]), 'checkpoint %s does not hold the state of '
                'round %d of the uninterrupted run' % (n, r), case=nc(how))

    def check_clean(state, result, end, how):
      require(result is not None and result[0] == 'ok', 'a fault-free re-run did not complete: %r' % (result,),
              case=nc(how))
      got = h.state_digest(result[1])
      require(got == h.ref_final, 'the re-run returned a final state different from the uninterrupted run',
              h.ref_final, got, case=nc(how))
      files = dict(end)
      require('final.tsv' in files, 'final evaluation file missing after a completed run', case=nc(how))
      require(files['final.tsv'].decode() == h.ref_tsv, 'final evaluation output differs from the uninterrupted run '
              '(state hash / round number handed to the final evaluation)', h.ref_tsv, files['final.tsv'].decode(),
              case=nc(how))
      ck = sorted(n for n in files if CKPT_RE.match(n))
      if cfg['ckpt']:
        saved = any(e['kind'] == 'write' and e['name'].startswith('checkpoint_') for e in result[2])
        # after every completed save at most `keep` checkpoints remain (a run that saves nothing may leave what it found)
        limit = cfg['keep'] if saved else max(cfg['keep'], len([n for n, _ in state if CKPT_RE.match(n)]))
        require(len(ck) <= limit, 'more than num_checkpoints_to_keep checkpoints retained after a run that saved a '
                'checkpoint', limit, ck, case=nc(how))
        for n in ck:
          r = int(n.split('_')[1])
          require(h.state_digest(load_pickle(files[n])) == h.state_digest(h.ref_states[r]),
                  'checkpoint %s written by the re-run is wrong' % n, case=nc(how))
      for n in stray_names & {x for x, _ in state}:
        require(n in files, 'an unrelated file (%s) was removed' % n, case=nc(how))

    def run(flt):
      res, trace = h.run(flt)
      return (res[0], res[1], trace), trace

    def faults_for(trace, depth):
      out = []
      for e in trace:
        out.append(('crash', e['i']))
        # the same point reached by a signal that Python delivers as an exception (handlers of the library run)
        out.append(('interrupt', e['i']))
        if e['kind'] in ('step', 'eval'):
          out.append(('exit', e['i']))
        if e.get('pending'):
          # data written but not yet flushed/closed is lost with the process
          out.append(('crash_lose', e['i']))
        if e['kind'] == 'write':
          n = e['nbytes']
          ps = range(0, n + 1) if depth <= case.get('all_prefixes_depth', 0) else sorted({0, 1, n // 2, n - 1, n})
          for p in ps:
            if 0 <= p <= n:
              out.append(('crash_write', e['i'], p))
      return out

    def enqueue(flt):
      if flt[0] != 'crash_write':
        return True
      return True if case.get('enqueue_all_prefixes') else flt[2] in _rep

    # representative torn-write prefixes that are expanded further (all prefixes are still executed and checked)
    _rep = set([0, 1, 2, 8, 31, 64, 100, 128, 200, 256])

    st = fault.explore(workdir, initial, run, faults_for, check_clean, check_state, enqueue=enqueue,
                       max_states=case.get('max_states', 4000))
    # seam conformance: the fault-free trace must contain the expected kinds of effects
    fault.restore(workdir, ())
    res, trace = h.run(None)
    kinds = {e['kind'] for e in trace}
    if not {'gfile', 'step', 'eval', 'open', 'write', 'close'} <= kinds:
      raise HarnessError('C09 seam did not observe all effect kinds: %r' % sorted(kinds))
    if cfg['ckpt']:
      if not any(e['kind'] == 'write' and e['name'].startswith('checkpoint_') for e in trace):
        raise HarnessError('C09 seam saw no checkpoint write although checkpointing is on')
    # at most `keep` checkpoints after every completed save (fault-free run, checked at every later effect)
    # -> replay the run and look at the directory whenever the next 'step' effect starts
    listing = []

    class Peek(fault.Injector):
      def effect(self, kind, name, nbytes=None):
        if kind in ('step', 'eval'):
          listing.append(sorted(n for n in os.listdir(workdir) if CKPT_RE.match(n)) if os.path.isdir(workdir) else [])
        return super().effect(kind, name, nbytes)
    fault.restore(workdir, ())
    h.run(None, injector_cls=Peek)
    for l in listing:
      require(len(l) <= max(cfg['keep'], 0) if cfg['ckpt'] else len(l) == 0, 'more than num_checkpoints_to_keep '
              'checkpoints present between rounds of an uninterrupted run', cfg['keep'], l, case=case)
      if l:
        require(l == sorted(l, key=lambda n: int(n.split('_')[1])), 'checkpoint order', case=case)
  finally:
    shutil.rmtree(base, ignore_errors=True)
  info = {'evals': st['runs'], 'nontrivial': bool(cfg['ckpt']), 'outcome': [cfg, st['states']],
          'keys': [['%s' % sorted(cfg.items()), kind, i] for i in range(st['states'] + st['checked_only_states'])],
          'stats': {'reachable_states_expanded': st['states'], 'states_checked_not_expanded': st['checked_only_states'],
                    'faults_injected': st['faults'], 'runs': st['runs'], 'max_successive_crashes': st['max_crash_depth']},
          'sample': {'cfg': cfg, 'algo': kind, 'effects_in_fault_free_run': len(trace),
                     'effect_kinds': [e['kind'] + ':' + e['name'] for e in trace][:40]}}
  if st['cap']:
    info['cap'] = st['cap']
  return info


def resumed_run(arg):
  """Runs the experiment in THIS interpreter: from scratch if arg['from_state'] is None, else from the given directory
  state (the files another interpreter left behind when it died). Returns the final state digest and final.tsv."""
  import base64
  cfg = arg['cfg']
  base = tempfile.mkdtemp(prefix='c09o_')
  workdir = os.path.join(base, 'root')
  try:
    h = Harness(cfg, workdir, arg.get('algo', 'toy'))
    state = tuple((n, base64.b64decode(d)) for n, d in arg['from_state']) if arg.get('from_state') is not None else ()
    fault.restore(workdir, state)
    res, _ = h.run(tuple(arg['fault']) if arg.get('fault') else None)
    files = dict(fault.snapshot(workdir))
    out = {'status': res[0], 'digest': h.state_digest(res[1]) if res[0] == 'ok' else None,
           'tsv': files.get('final.tsv', b'').decode() if res[0] == 'ok' else None, 'ref': h.ref_final,
           'files': [[n, base64.b64encode(d).decode()] for n, d in sorted(files.items())]}
    return out
  finally:
    shutil.rmtree(base, ignore_errors=True)


def other_process(case):
  """A restarted experiment runs in ANOTHER interpreter process (other str/bytes hash salt): the run is crashed at
  every step of the training loop in a child interpreter, the files it leaves are handed to a second child with another
  salt that re-runs the same call; final state and final evaluation output must be those of the uninterrupted run."""
  from mc import child
  cfg, algo = case['cfg'], case.get('algo', 'toy')
  here = resumed_run({'cfg': cfg, 'algo': algo, 'from_state': None})
  require(here['status'] == 'ok' and here['digest'] == here['ref'], 'uninterrupted run differs from the round-by-round reference',
          here['ref'], here['digest'], case=case)
  evals = 0
  h1, h2 = case['hashseeds']
  # crash points: before every 'step' effect (sampling / algorithm step) of the fault-free run
  base = tempfile.mkdtemp(prefix='c09p_')
  try:
    hh = Harness(cfg, os.path.join(base, 'root'), algo)
    fault.restore(hh.workdir, ())
    _, trace = hh.run(None)
  finally:
    shutil.rmtree(base, ignore_errors=True)
  points = [e['i'] for e in trace if e['kind'] == 'step' and e['name'] == 'sampler.sample']
  if 'point' in case:   # one crash point per case (the cases of a configuration run in parallel)
    points = points[case['point']:case['point'] + 1]
  for i in points:
    nc = dict(case, crash_before_effect=i)
    first = child.call('mc.checks.c09_experiment_resume', 'resumed_run', {'cfg': cfg, 'algo': algo, 'from_state': None,
                                                                        'fault': ['crash', i]}, h1)
    second = child.call('mc.checks.c09_experiment_resume', 'resumed_run', {'cfg': cfg, 'algo': algo, 'from_state': first['files']}, h2)
    require(second['status'] == 'ok' and second['digest'] == here['digest'] and second['tsv'] == here['tsv'],
            'a run that died in one interpreter (PYTHONHASHSEED=%s) and was re-run in another (PYTHONHASHSEED=%s) ends in another '
            'final state / final evaluation than the uninterrupted run' % (h1, h2), [here['digest'], here['tsv']],
            [second['digest'], second['tsv']], case=nc)
    evals += 1
  return {'evals': evals, 'nontrivial': True, 'outcome': [cfg, case['hashseeds']]}


SUBS = {'explore': explore, 'other_process': other_process}
TIMEOUTS = {'explore': 3000, 'other_process': 2400}


def configs(th):
  out = []
  for nr in ((1, 2, 3, 4) if th else (1, 2, 3)):
    for ck in (0, 1, 2, 3):
      for keep in ((1, 2, 3) if ck else (1,)):
        for ev in (0, 2):
          if not th and (ck == 3 or keep == 3 or (nr == 3 and ev == 2 and ck != 2)):
            continue
          out.append({'num_rounds': nr, 'ckpt': ck, 'keep': keep, 'eval': ev})
  return out


def plan(ctx):
  th = ctx.tier == 'thorough'
  ctx.rule = ('per configuration (num_rounds x checkpoint_frequency x keep x eval_frequency): BFS over root_dir states; from '
              'every reachable state: crash before every effect of the run and after every byte prefix of every write (all prefixes for runs from the initial state - thorough: also from states one crash deep -, prefixes {0,1,n/2,n-1,n} from deeper states); '
              'states reached by a representative set of torn-write prefixes and by all other crashes are expanded again '
              'until no new state appears (fixpoint); distinct = reachable directory states; non-trivial = checkpointing on')
  ctx.assumptions += ['crash = process death; a file holds the bytes written before the crash (every prefix tried), or - for handles still open at the crash - only what had been flushed/closed (crash_lose: user-space buffers die with the process)',
                      'tf.summary is stubbed (no TensorBoard in the sandbox); event files are not observed',
                      'a restart is modelled in-process: fresh sampler/config objects per call and the module-level variables '
                      'of every imported fedjax module reset to their values at first use; state hidden in class attributes '
                      'or in third-party modules would survive',
                      'round-deterministic toy algorithm (state = hash chain over cohorts) with the real '
                      'UniformGetClientSampler; plus a bfloat16 / weakly-typed-scalar state; one real FedAvg configuration (thorough: all checkpointing configurations)']
  cs = [{'cfg': c, 'stray': c['ckpt'] == 1 and c['num_rounds'] == 2, 'all_prefixes_depth': 1 if th else 0}
        for c in configs(th)]
  cs += [{'cfg': c, 'algo': 'weak', 'all_prefixes_depth': -1} for c in configs(False)
         if c['ckpt'] == 1 and c['num_rounds'] >= 2 and (th or c['eval'] == 0)][:(6 if th else 2)]
  if th:
    cs += [{'cfg': c, 'algo': 'fedavg', 'all_prefixes_depth': -1} for c in configs(False) if c['ckpt'] in (1, 2)]
  else:
    # one real FedAvg (momentum server optimizer) experiment; the caller's init_state object is reused by every re-run
    cs += [{'cfg': {'num_rounds': 2, 'ckpt': 2, 'keep': 1, 'eval': 0}, 'algo': 'fedavg', 'all_prefixes_depth': -1}]
  # a longer experiment (thorough 10, quick 6 rounds, checkpoints every 3rd round, evaluation every 4th): representative torn-write prefixes only
  cs += [{'cfg': {'num_rounds': 10 if th else 6, 'ckpt': 3, 'keep': 2, 'eval': 4}, 'all_prefixes_depth': -1}]
  cs += [{'cfg': {'num_rounds': 3, 'ckpt': 1, 'keep': 1, 'eval': 0, 'root_spelling': sp}, 'all_prefixes_depth': -1} for sp in ('slash', 'dot')]
  # periodic evaluation on sampled clients through the sampler object that also drives training
  cs += [{'cfg': {'num_rounds': nr, 'ckpt': 1, 'keep': 1, 'eval': ev, 'shared_eval': True}, 'algo': 'fedavg', 'all_prefixes_depth': -1}
         for nr, ev in (((4, 3), (3, 2), (4, 2)) if th else ((3, 2),))]
  ctx.pmap('explore', cs, chunk=1)
  ctx.pmap('other_process', [{'cfg': {'num_rounds': 3, 'ckpt': 1, 'keep': 1, 'eval': 0}, 'hashseeds': hs, 'point': k}
                             for hs in (([1, 2], [2, 3], [12345, 1]) if th else ([1, 2],)) for k in range(3)], chunk=1)

"""C16 - serialization round-trips every supported value exactly.

E-enum: dtype x shape x layout x byte order; bytes-object arrays; scalars; nestings; unsupported
leaves must raise (or at least never come back altered); SQLite builder -> reader; save/load state.
"""
import itertools
import os
import shutil
import tempfile

import numpy as np

from mc import core
from mc.core import require, Violation

PROPERTY = 'C16'
LEVEL = 'exploration'

DTYPES = ['bool', 'int8', 'int16', 'int32', 'int64', 'uint8', 'uint16', 'uint32', 'uint64', 'float16', 'float32',
          'float64', 'bfloat16', 'complex64', 'complex128']
SHAPES = [(), (0,), (3,), (2, 3), (2, 0, 2), (1, 1, 1, 2), (4, 1, 3)]
LAYOUTS = ['C', 'F', 'strided', 'reversed', 'transposed', 'broadcast', 'readonly']


def _dt(name):
  if name == 'bfloat16':
    import jax.numpy as jnp
    return np.dtype(jnp.bfloat16)
  return np.dtype(name)


def make_values(dtype, count, seed):
  """Ramp + extremes as a flat native array of `count` elements."""
  dt = _dt(dtype)
  if dtype == 'bfloat16':
    pool = [float('inf'), float('-inf'), float('nan'), -0.0, 0.0, 1.5, -2.25, 3e38, 1e-38] + \
           [i * 0.5 + seed for i in range(count)]
    return np.array(pool[:count], dtype=np.float32).astype(dt)
  if dt.kind == 'b':
    vals = [(i + seed) % 2 == 0 for i in range(count)]
    return np.array(vals, dtype=dt)
  if dt.kind in 'iu':
    info = np.iinfo(dt)
    pool = [info.min, info.max, 0, 1, info.max // 3, info.min // 2 + 1] + [i + 2 + seed for i in range(count)]
    return np.array(pool[:count], dtype=dt)
  if dt.kind == 'f':
    pool = [float('inf'), float('-inf'), float('nan'), -0.0, 0.0, 1.5, -2.25, 65504.0, 6e-8] + \
           [i * 0.5 + seed for i in range(count)]
    with np.errstate(all='ignore'):
      return np.array(pool[:count], dtype=np.float64).astype(dt)
  if dt.kind == 'c':
    pool = [complex(float('inf'), -0.0), complex(float('nan'), 1.0), complex(-0.0, float('-inf')), 1 + 2j, -3.5j] + \
           [complex(i + seed, -i) for i in range(count)]
    return np.array(pool[:count], dtype=dt)
  raise AssertionError(dtype)


def make_array(dtype, shape, layout, swapped, seed=0):
  count = int(np.prod(shape)) if shape else 1
  if layout == 'strided':
    big = make_values(dtype, count * 2, seed).reshape(shape + (2,)) if shape else make_values(dtype, 2, seed)
    a = big[..., 0] if shape else big[0:1].reshape(())
    a = a if shape else np.array(big[0])  # 0-d: no strided form
  elif layout == 'broadcast':
    if not shape:
      a = make_values(dtype, 1, seed).reshape(())
    else:
      inner = int(np.prod(shape[1:])) if len(shape) > 1 else 1
      a = np.broadcast_to(make_values(dtype, inner, seed).reshape(shape[1:]), shape)
  else:
    a = make_values(dtype, count, seed).reshape(shape)
    if layout == 'F':
      a = np.asfortranarray(a)
    elif layout == 'reversed':
      a = a[::-1] if shape else a
    elif layout == 'transposed':
      a = a.T
    elif layout == 'readonly':
      a = np.frombuffer(np.ascontiguousarray(a).tobytes(), dtype=a.dtype).reshape(a.shape)
  if swapped:
    a = a.astype(a.dtype.newbyteorder('S'))  # same values, other byte order
    if layout == 'F' and a.ndim > 1:
      a = np.asfortranarray(a)
  return a


def canon(a):
  """(dtype name, shape, bit pattern of the C-contiguous native copy)."""
  a = np.asarray(a)
  nat = a if a.dtype.name == 'bfloat16' else a.astype(a.dtype.newbyteorder('='), copy=False)
  return (a.dtype.name, tuple(a.shape), np.ascontiguousarray(nat).tobytes())


def same_leaf(x, y, path='$'):
  """Raises Violation unless y is an exact copy of x (see DESIGN C16 for the equality used)."""
  import jax
  if isinstance(x, dict):
    require(type(y) is dict, path + ': dict came back as ' + type(y).__name__)
    require(list(x.keys()) == list(y.keys()) or set(x) == set(y), path + ': dict keys differ',
            sorted(map(repr, x)), sorted(map(repr, y)))
    for k in x:
      same_leaf(x[k], y[k], path + '.' + str(k))
    return
  if isinstance(x, list):
    require(type(y) is list and len(x) == len(y), path + ': list came back as %s' % type(y).__name__)
    for i, (u, v) in enumerate(zip(x, y)):
      same_leaf(u, v, '%s[%d]' % (path, i))
    return
  if isinstance(x, (np.ndarray, jax.Array)):
    xa = np.asarray(x)
    require(isinstance(y, np.ndarray), path + ': array came back as ' + type(y).__name__)
    if xa.dtype == object:
      require(y.dtype == object and y.shape == xa.shape, path + ': object array dtype/shape',
              [str(xa.dtype), list(xa.shape)], [str(y.dtype), list(y.shape)])
      for u, v in zip(xa.flatten(), y.flatten()):
        require(type(u) is type(v) and u == v, path + ': object array element altered', repr(u), repr(v))
      return
    cx, cy = canon(xa), canon(y)
    require(cx[0] == cy[0], path + ': dtype changed', cx[0], cy[0])
    require(cx[1] == cy[1], path + ': shape changed', list(cx[1]), list(cy[1]))
    require(cx[2] == cy[2], path + ': values changed', xa.astype(xa.dtype.newbyteorder('=')).tolist()
            if xa.dtype.kind != 'V' else repr(xa), np.asarray(y).tolist() if y.dtype.kind != 'V' else repr(y))
    return
  if isinstance(x, np.generic):
    require(isinstance(y, np.generic), path + ': numpy scalar came back as ' + type(y).__name__)
    cx, cy = canon(np.asarray(x)), canon(np.asarray(y))
    require(cx == cy, path + ': numpy scalar altered', [cx[0], repr(x)], [cy[0], repr(y)])
    return
  require(type(x) is type(y), path + ': %s came back as %s' % (type(x).__name__, type(y).__name__))
  if isinstance(x, float):
    require(np.float64(x).tobytes() == np.float64(y).tobytes(), path + ': float altered', repr(x), repr(y))
  elif isinstance(x, complex):
    require(np.complex128(x).tobytes() == np.complex128(y).tobytes(), path + ': complex altered', repr(x), repr(y))
  else:
    require(x == y, path + ': value altered', repr(x), repr(y))


def roundtrip(x):
  from fedjax.core import serialization as ser
  return ser.msgpack_deserialize(ser.msgpack_serialize(x))


def arrays(case):
  a = make_array(case['dtype'], tuple(case['shape']), case['layout'], case['swapped'], case.get('seed', 0))
  snap = canon(a)
  if a.size and case.get('layout') == 'C' and not case.get('swapped'):
    from fedjax.core import serialization as ser
    blob = ser.msgpack_serialize({'a': a})
    first = ser.msgpack_deserialize(blob)['a']
    if isinstance(first, np.ndarray) and first.flags.writeable:
      first.reshape(-1)[0] = first.reshape(-1)[-1]
      first[...] = first * 0
    second = ser.msgpack_deserialize(blob)['a']
    require(canon(second) == snap, 'a second deserialisation of the same bytes differs after the first result was overwritten in place',
            np.asarray(a).tolist(), np.asarray(second).tolist())
  for wrap in case.get('wraps', ['dict', 'list', 'top']):
    x = {'dict': {'a': a}, 'list': [a], 'top': a, 'nested': {'p': [{'q': a}, []]}}[wrap]
    y = roundtrip(x)
    try:
      same_leaf(x, y)
    except Violation as v:
      v.case = dict(case, wraps=[wrap])
      raise
  require(canon(a) == snap, 'serialization modified its input array')
  return {'outcome': [snap[0], list(snap[1])], 'evals': 3,
          'nontrivial': case['layout'] != 'C' or case['swapped'] or 0 in case['shape'] or not case['shape']}


BYTES_POOL = [b'', b'a\x00', b'\xff', b'xyz']


def bytes_arrays(case):
  shape = tuple(case['shape'])
  n = int(np.prod(shape))
  evals = 0
  for combo in ([case['elems']] if 'elems' in case else
                itertools.product(range(len(BYTES_POOL)), repeat=n)):
    a = np.empty(n, dtype=object)
    for i, c in enumerate(combo):
      a[i] = BYTES_POOL[c]
    a = a.reshape(shape)
    if case.get('fortran') and a.ndim > 1:
      a = np.asfortranarray(a)
    try:
      same_leaf({'ids': a, 'k': [a]}, roundtrip({'ids': a, 'k': [a]}))
      if n >= 1:
        # history on the decoder: what one deserialisation returned is the caller's to modify; a later deserialisation of
        # the SAME bytes (and equal leaves inside one value) must not see that
        from fedjax.core import serialization as ser
        blob = ser.msgpack_serialize({'ids': a, 'k': [a]})
        first = ser.msgpack_deserialize(blob)
        require(first['ids'] is not first['k'][0], 'two equal leaves of one value come back as ONE array object', case=dict(case, elems=list(combo)))
        for leaf in (first['ids'], first['k'][0]):
          if leaf.flags.writeable:
            leaf.reshape(-1)[0] = b'EDITED'
        same_leaf({'ids': a, 'k': [a]}, ser.msgpack_deserialize(blob), path='second deserialisation after the first result was edited')
    except Violation as v:
      v.case = dict(case, elems=list(combo))
      raise
    evals += 1
  return {'evals': evals, 'nontrivial': n == 0 or n > 1, 'outcome': list(shape)}


def _scalar_pool():
  import jax.numpy as jnp
  out = []
  for d in DTYPES:
    vals = make_values(d, 4, 0)
    out += [('np:' + d + ':%d' % i, v) for i, v in enumerate(vals)]
  out += [('py:int0', 0), ('py:int-1', -1), ('py:int63', 2 ** 63 - 1), ('py:int-63', -2 ** 63), ('py:uint64', 2 ** 64 - 1),
          ('py:float', 2.5), ('py:nan', float('nan')), ('py:-0.0', -0.0), ('py:inf', float('inf')),
          ('py:true', True), ('py:false', False), ('py:str', 'a\x00é'), ('py:emptystr', ''),
          ('py:bytes', b'\x00\xff'), ('py:emptybytes', b''), ('py:complex', complex(1.5, -0.0)), ('py:none', None),
          ('jax:f32', jnp.arange(3, dtype=jnp.float32)), ('jax:i32:0d', jnp.array(7, dtype=jnp.int32)),
          ('jax:bf16', jnp.ones((2, 2), dtype=jnp.bfloat16)), ('jax:bool', jnp.array([True, False]))]
  return dict(out)


def scalars(case):
  pool = _scalar_pool()
  x = pool[case['name']]
  for wrap, v in (('dict', {'a': x}), ('list', [x, [x]]), ('top', x)):
    try:
      same_leaf(v, roundtrip(v))
    except Violation as e:
      e.msg = wrap + ' ' + e.msg
      raise
  return {'outcome': case['name'].split(':')[0], 'evals': 3, 'nontrivial': True}


def special_values(case):
  """Arrays and scalars whose VALUES are special although their bytes are ordinary: all +-0.0 (with and without a
  negative zero), NaN payloads, infinities, denormals, the type limits, all-zero and all-ones bit patterns; compared bit
  for bit after the round trip (through msgpack and through the SQLite builder)."""
  import ml_dtypes
  dt = {'bfloat16': ml_dtypes.bfloat16}.get(case['dtype'], None) or np.dtype(case['dtype'])
  dt = np.dtype(dt)
  evals = 0
  if dt.kind in 'fc' or dt.name == 'bfloat16':
    base = np.float64 if dt.kind != 'c' else np.complex128
    vals = {
        'neg_zeros': [-0.0, -0.0, -0.0], 'mixed_zeros': [0.0, -0.0, 0.0], 'pos_zeros': [0.0, 0.0],
        'nan_inf': [np.nan, np.inf, -np.inf, 1.0], 'one_neg_zero': [-0.0],
    }
    arrs = {k: np.asarray(v, base).astype(dt) for k, v in vals.items()}
    fi = np.finfo(dt) if dt.name != 'bfloat16' else ml_dtypes.finfo(dt)
    arrs['limits'] = np.asarray([fi.max, fi.min, fi.tiny, fi.eps], dtype=dt)
    arrs['denormal'] = (np.asarray([fi.tiny], dtype=dt) / np.asarray(4, dtype=dt)).astype(dt)
    arrs['zero_d_neg_zero'] = np.asarray(-0.0, base).astype(dt).reshape(())
  else:
    ii = np.iinfo(dt) if dt.kind in 'iu' else None
    arrs = {'zeros': np.zeros(3, dt), 'ones': np.ones((2, 2), dt)}
    if ii is not None:
      arrs['limits'] = np.asarray([ii.min, ii.max, 0], dtype=dt)
  nbytes = dt.itemsize
  arrs['all_ones_bits'] = np.frombuffer(b'\xff' * nbytes * 2, dtype=dt).copy() if dt.kind != 'b' else np.asarray([True, True])
  for name, a in arrs.items():
    for wrap in ({'a': a}, [a, {'b': a.reshape(a.shape + (1,))}]):
      try:
        same_leaf(wrap, roundtrip(wrap))
      except Violation as e:
        e.msg = '%s (%s): %s' % (name, dt.name, e.msg)
        raise
      evals += 1
    if a.ndim == 0 and dt.name != 'bfloat16':
      sc = a[()]
      same_leaf({'s': sc}, roundtrip({'s': sc}))
      evals += 1
  # the same features through the SQLite builder / reader
  from fedjax.core import sqlite_federated_data as sq
  tmp = tempfile.mkdtemp(prefix='c16v_')
  try:
    path = os.path.join(tmp, 'v.sqlite')
    feats = {k: v for k, v in arrs.items() if v.ndim == 1 and len(v) == 3}
    if feats:
      with sq.SQLiteFederatedDataBuilder(path) as b:
        b.add_many([(b'c', feats)])
      fd = sq.SQLiteFederatedData.new(path)
      same_leaf(dict(feats), dict(fd.get_client(b'c').raw_examples), path='sqlite')
      fd._connection.close()
      evals += 1
  finally:
    shutil.rmtree(tmp, ignore_errors=True)
  return {'evals': evals, 'nontrivial': True, 'outcome': dt.name}


def _unsupported():
  import collections
  import typing
  NT = collections.namedtuple('NT', ['a', 'b'])

  class TNT(typing.NamedTuple):
    w: object
    n: int
  return {
      # tuples in every disguise: named tuples (optimizer states, algorithm states), tuple subclasses, empty tuples
      'namedtuple': NT(np.arange(2), 1.5),
      'namedtuple_in_list': [NT(1, 2)],
      'typing_namedtuple': {'s': TNT(np.ones(2, np.float32), 3)},
      'tuple_subclass': type('T2', (tuple,), {})((1, 2)),
      'empty_tuple': (),
      'tuple_of_arrays_in_dict': {'a': (np.arange(2), np.arange(3))},
      'frozenset': frozenset([1]),
      'range': range(3),
      'bytearray': bytearray(b'ab'),
      'tuple': (1, 2),
      'tuple_nested': {'a': [(np.arange(2),)]},
      'U_array': np.array(['ab', 'c']),
      'S_array': np.array([b'ab', b'c']),
      'S_array_trailing_zero': np.array([b'a\x00', b'c']),
      'struct_aligned': np.zeros(2, dtype=np.dtype([('x', 'i1'), ('y', 'f4')], align=True)),
      'struct_packed': np.array([(1, 2.5), (3, 4.5)], dtype=[('x', 'i4'), ('y', 'f4')]),
      'void': np.array([b'abc'], dtype='V3'),
      'obj_ints': np.array([1, 2], dtype=object),
      'obj_str_first': np.array(['s', b'a'], dtype=object),
      'obj_str_later': np.array([b'a', 's'], dtype=object),
      'obj_str_later_2d': np.array([[b'a', b'b'], [b'c', 'd']], dtype=object),
      'obj_int_later': np.array([b'a', 1], dtype=object),
      'obj_none_later': np.array([b'a', None], dtype=object),
      'obj_nested_list': np.array([b'a', [b'b']], dtype=object),
      'set': {1, 2},
      'np_str_scalar': np.str_('a'),
      'np_bytes_scalar': np.bytes_(b'a'),
      'int_too_big': 2 ** 64,
      'object': object(),
  }


def unsupported(case):
  x = _unsupported()[case['name']]
  for wrap in ('dict', 'list'):
    v = {'a': x} if wrap == 'dict' else [x]
    try:
      y = roundtrip(v)
    except Exception as e:  # rejected: fine  # pylint: disable=broad-except
      out = type(e).__name__
      continue
    # accepted: it must not have been altered
    try:
      same_leaf(v, y)
    except Violation as e:
      raise Violation('unsupported leaf %s was neither rejected nor preserved: %s' % (case['name'], e.msg),
                      repr(x), repr(y))
    out = 'preserved'
  return {'outcome': out, 'nontrivial': True, 'evals': 2}


def _trees(depth, leaves):
  if depth == 0:
    return list(leaves)
  sub = _trees(depth - 1, leaves)
  out = list(leaves)
  out.append([])
  out += [[a] for a in sub]
  out += [[a, b] for a in sub for b in sub]
  out.append({})
  out += [{'a': a} for a in sub]
  out += [{'a': a, 'b': b} for a in sub for b in sub]
  return out


def nesting(case):
  pools = {'3': [np.arange(3, dtype=np.int16), 2.5, b'x'], '1': [np.array([[1.5]], dtype=np.float32)]}
  trees = _trees(case['depth'], pools[case['pool']])
  lo, hi = case.get('lo', 0), case.get('hi', len(trees))
  for i in range(lo, min(hi, len(trees))):
    try:
      same_leaf(trees[i], roundtrip(trees[i]))
    except Violation as v:
      v.case = dict(case, lo=i, hi=i + 1)
      raise
  return {'evals': min(hi, len(trees)) - lo, 'nontrivial': case['depth'] >= 2, 'outcome': len(trees)}


def aborted_deserialize(case):
  """A deserialisation that fails on a truncated / corrupt blob must not influence later calls."""
  from fedjax.core import serialization as ser
  vals = [{'a': np.arange(5, dtype=np.int32), 'b': [1.5, b'x']}, {'k': np.ones((2, 2), np.float32)}, [np.float16(2.5), 'text'],
          {'big': np.arange(40, dtype=np.float64)}]
  blobs = [ser.msgpack_serialize(v) for v in vals]
  cut = case['cut']
  bad = blobs[case['which']][:max(1, int(len(blobs[case['which']]) * cut))]
  for rnd in range(2):
    try:
      ser.msgpack_deserialize(bad)
    except Exception:  # pylint: disable=broad-except
      pass
    else:
      if cut < 1:
        raise Violation('a truncated blob was deserialised without an error', 'an exception', None)
    try:
      ser.msgpack_deserialize(blobs[case['which']] + b'\x01\x02')
    except Exception:  # pylint: disable=broad-except
      pass
    for v, b in zip(vals, blobs):
      same_leaf(v, ser.msgpack_deserialize(b), path='after an aborted call')
  return {'evals': 2 * len(vals), 'nontrivial': True, 'outcome': [case['which'], cut]}


def sqlite_rt(case):
  """SQLiteFederatedDataBuilder -> SQLiteFederatedData: ids, sizes, examples identical."""
  from fedjax.core import sqlite_federated_data as sq
  ids = [bytes.fromhex(h) for h in case['ids']]
  sizes = case['sizes']
  table = {}
  for k, (cid, n) in enumerate(zip(ids, sizes)):
    table[cid] = {'x': make_array(case['dtype'], (n, 2), case['layout'], case['swapped'], seed=k),
                  'y': np.arange(n, dtype=np.int64) + k,
                  's': np.array([BYTES_POOL[(i + k) % 4] for i in range(n)], dtype=object)}
  tmp = tempfile.mkdtemp(prefix='c16_')
  try:
    path = os.path.join(tmp, 'd.sqlite')
    how = case.get('how', 'with')
    items = [(cid, table[cid]) for cid in ids]
    keep_open = None
    if how.startswith('replaced'):
      # history on ONE path in one process: another dataset was built there and read before; then the file is replaced
      # (staged under a temporary name + os.replace, as the library's converters do, or removed and rebuilt in place)
      decoy = [(cid + b'-old', {'x': np.zeros((1, 2), _dt(case['dtype'])), 'y': np.arange(1, dtype=np.int64) - 7,
                                's': np.array([b'old'], dtype=object)}) for cid in ids[::-1]]
      with sq.SQLiteFederatedDataBuilder(path) as b:
        b.add_many(decoy)
      old = sq.SQLiteFederatedData.new(path)
      require(sorted(old.client_ids()) == sorted(c for c, _ in decoy), 'client ids of the first dataset at this path differ')
      if how.endswith('closed'):
        old._connection.close()
      if 'staged' in how:
        stage = path + '.building'
        with sq.SQLiteFederatedDataBuilder(stage) as b:
          b.add_many(items)
        os.replace(stage, path)
      else:
        os.remove(path)
        with sq.SQLiteFederatedDataBuilder(path) as b:
          b.add_many(items)
      keep_old = old   # the first reader object stays alive
    elif how == 'second_builder':
      # a dataset already exists at the path; a SECOND builder is opened on it for other client ids: either it is refused
      # (the first dataset stays exactly as written) or the file afterwards holds exactly what the second builder wrote -
      # never a mixture of the two
      first_items = [(cid + b'-first', {'x': np.ones((2, 2), _dt(case['dtype'])), 'y': np.arange(2, dtype=np.int64) + 50,
                                        's': np.array([b'one', b'two'], dtype=object)}) for cid in ids]
      with sq.SQLiteFederatedDataBuilder(path) as b:
        b.add_many(first_items)
      refused = False
      try:
        with sq.SQLiteFederatedDataBuilder(path) as b:
          b.add_many(items)
      except Exception:  # pylint: disable=broad-except
        refused = True
      if refused:
        fd0 = sq.SQLiteFederatedData.new(path)
        got0 = sorted(fd0.client_ids())
        fd0._connection.close()
        require(got0 == sorted(c for c, _ in first_items), 'a refused second build changed the dataset that was already at the path',
                sorted(c for c, _ in first_items), got0)
        return {'outcome': [case['dtype'], sizes, how, 'refused'], 'nontrivial': True}
    elif how == 'with':
      with sq.SQLiteFederatedDataBuilder(path) as b:
        b.add_many(items)
    elif how == 'two_calls':
      with sq.SQLiteFederatedDataBuilder(path) as b:
        b.add_many(iter(items[:1]))
        b.add_many(x for x in items[1:])
    elif how == 'read_while_open':
      # what add_many has returned for is in the file: a reader opened while the builder is still open sees it
      keep_open = sq.SQLiteFederatedDataBuilder(path)
      keep_open.add_many(items)
    elif how == 'later_failure':
      # a later step of the build fails (duplicate client id): what the earlier add_many calls wrote stays written
      try:
        with sq.SQLiteFederatedDataBuilder(path) as b:
          b.add_many(items)
          b.add_many(items[:1])
        raise Violation('adding a client id twice was accepted silently')
      except Violation:
        raise
      except Exception:  # pylint: disable=broad-except
        pass
    elif how == 'no_with':
      b = sq.SQLiteFederatedDataBuilder(path)
      b.add_many(items)
      del b
    fd = sq.SQLiteFederatedData.new(path)
    got_ids = list(fd.client_ids())
    require(sorted(got_ids) == sorted(ids) and len(got_ids) == len(ids), 'client ids differ', sorted(ids), got_ids)
    require(fd.num_clients() == len(ids), 'num_clients differs')
    require(dict(fd.client_sizes()) == dict(zip(ids, sizes)), 'client sizes differ',
            dict(zip(ids, sizes)), dict(fd.client_sizes()))
    for cid, ds in fd.clients():
      same_leaf(dict(table[cid]), dict(ds.raw_examples), path=repr(cid))
    # overlapping reads on one dataset object
    seen = []
    for cid in fd.client_ids():
      same_leaf(dict(table[cid]), dict(fd.get_client(cid).raw_examples), path='get inside client_ids() ' + repr(cid))
      seen.append(cid)
    require(sorted(seen) == sorted(ids), 'iterating client_ids() while calling get_client() lost clients', sorted(ids), seen)
    pairs = list(zip(fd.client_ids(), fd.client_sizes()))
    require(len(pairs) == len(ids) and all(a == b[0] for a, b in pairs), 'client_ids() zipped with client_sizes() disagree',
            None, pairs)
    for cid in ids:
      same_leaf(dict(table[cid]), dict(fd.get_client(cid).raw_examples), path='get ' + repr(cid))
      require(fd.client_size(cid) == sizes[ids.index(cid)], 'client_size differs')
    fd._connection.close()
    if keep_open is not None:
      keep_open.__exit__(None, None, None)
  finally:
    shutil.rmtree(tmp, ignore_errors=True)
  return {'outcome': [case['dtype'], sizes, case.get('how', 'with')], 'nontrivial': 0 in sizes or case['swapped'] or case['layout'] != 'C'}


def state_rt(case):
  """save_state / load_state of a checkpoint-like server state."""
  import collections
  import jax.numpy as jnp
  from fedjax.core import serialization as ser
  import fedjax
  NT = collections.namedtuple  # noqa
  kind = case['kind']
  tmp = tempfile.mkdtemp(prefix='c16s_')
  try:
    if kind == 'fedavg':
      from fedjax.algorithms import fed_avg
      opt = {'sgd': fedjax.optimizers.sgd(0.1), 'adam': fedjax.optimizers.adam(0.1),
             'mom': fedjax.optimizers.sgd(0.1, momentum=0.5)}[case['opt']]
      params = {'linear': {'w': jnp.arange(6, dtype=jnp.float32).reshape(2, 3) * 0.25, 'b': jnp.zeros((3,))}}
      state = fed_avg.ServerState(params, opt.init(params))
    elif kind == 'plain':
      state = {'a': make_array(case['dtype'], (2, 3), 'F', case['swapped']), 'l': [1, 2.5, b'x', 's', (1, 2)],
               'j': jnp.arange(4, dtype=jnp.bfloat16), 'weak_f': jnp.asarray(0.9), 'weak_i': jnp.asarray(3),
               'strong_f': jnp.asarray(0.9, jnp.float32)}
    else:
      raise AssertionError(kind)
    path = os.path.join(tmp, 'state')
    ser.save_state(state, path)
    back = ser.load_state(path)
    import jax
    la, ta = jax.tree_util.tree_flatten(state)
    lb, tb = jax.tree_util.tree_flatten(back)
    require(ta == tb, 'tree structure of the loaded state differs', str(ta), str(tb))
    for u, v in zip(la, lb):
      if isinstance(u, (np.ndarray, jax.Array, np.generic)):
        cu, cv = canon(np.asarray(u)), canon(np.asarray(v))
        require(cu == cv, 'leaf of the loaded state differs', np.asarray(u).tolist(), np.asarray(v).tolist())
        # a JAX array also carries a weak-type flag that decides the dtype of what is computed from it
        require(bool(getattr(u, 'weak_type', False)) == bool(getattr(v, 'weak_type', False)),
                'the weak-type flag of a JAX array leaf is not restored', bool(getattr(u, 'weak_type', False)),
                bool(getattr(v, 'weak_type', False)))
      else:
        require(type(u) is type(v) and u == v, 'leaf differs', repr(u), repr(v))
  finally:
    shutil.rmtree(tmp, ignore_errors=True)
  return {'outcome': kind, 'nontrivial': True}


class _SaveFailure(Exception):
  pass


class _Unpicklable:
  def __reduce__(self):
    raise _SaveFailure('this object cannot be pickled')


def checkpoint_api(case):
  """All sequences of save_checkpoint(round, state) up to a depth: load_latest_checkpoint returns what was saved
  last for the numerically largest round, and at most `keep` checkpoints remain (reference: a dict)."""
  import jax.numpy as jnp
  from fedjax.training import checkpoint
  keep, depth = case['keep'], case['depth']
  states = {
      'sA': {'w': jnp.arange(3, dtype=jnp.float32), 'h': np.float16(1.5), 'n': 7},
      'sB': {'w': jnp.arange(3, dtype=jnp.float32) * -2, 'h': np.float16(-0.5), 'n': 8},
      'sC': {'w': jnp.ones((2, 2), jnp.bfloat16), 'h': np.float16(0), 'n': -1},
  }
  # sBAD: a state that cannot be saved (a leaf whose pickling raises): the save fails and must leave the directory, and what
  # load_latest_checkpoint returns, exactly as they were
  states['sBAD'] = {'w': jnp.zeros(2), 'h': _Unpicklable(), 'n': 0}
  rounds = [None, 1, 2, 10]
  ops = [(r, k) for r in rounds for k in states if not (k == 'sBAD' and r in (None, 1))]
  seqs = [tuple(tuple(o) for o in case['ops'])] if 'ops' in case else itertools.chain.from_iterable(
      itertools.product(ops, repeat=d) for d in range(1, depth + 1))
  evals = trans = 0
  for seq in seqs:
    tmp = tempfile.mkdtemp(prefix='c16c_')
    try:
      require(checkpoint.load_latest_checkpoint(tmp) is None, 'empty directory does not give None')
      model = {}
      for i, (r, k) in enumerate(seq):
        nc = dict(case, ops=[list(o) for o in seq[:i + 1]])
        if k == 'sBAD':
          try:
            checkpoint.save_checkpoint(tmp, states[k], r, keep)
            raise Violation('saving a state that cannot be pickled did not raise', case=nc)
          except _SaveFailure:
            pass
          got = checkpoint.load_latest_checkpoint(tmp)
          if not model:
            require(got is None, 'a failed first save left a loadable checkpoint behind', None, repr(got)[:80], case=nc)
          else:
            require(got is not None and got[1] == max(model), 'after a FAILED save the newest checkpoint saved before is no longer what '
                    'load_latest_checkpoint returns', max(model), None if got is None else got[1], case=nc)
            same_leaf(_plain(states[model[max(model)]]), _plain(got[0]), path='state')
          files = sorted(f for f in os.listdir(tmp) if f.startswith('checkpoint_') and len(f) == len('checkpoint_') + 8)
          require(files == ['checkpoint_%08d' % x for x in sorted(model)], 'a failed save changed the set of complete checkpoint files',
                  ['checkpoint_%08d' % x for x in sorted(model)], files, case=nc)
          trans += 1
          continue
        if r is None:
          checkpoint.save_checkpoint(tmp, states[k], keep=keep)
          rr = 0
        else:
          checkpoint.save_checkpoint(tmp, states[k], r, keep)
          rr = r
        model[rr] = k
        for old in sorted(model)[:-keep]:
          del model[old]
        got = checkpoint.load_latest_checkpoint(tmp)
        require(got is not None, 'no checkpoint found after a save', case=nc)
        st, rn = got
        want_r = max(model)
        require(rn == want_r, 'load_latest_checkpoint returned round %r, the newest saved round is %r' % (rn, want_r),
                want_r, rn, case=nc)
        try:
          same_leaf(_plain(states[model[want_r]]), _plain(st), path='state')
        except Violation as v:
          raise Violation('the loaded checkpoint is not the state last saved for round %d: %s' % (want_r, v.msg),
                          model[want_r], None, case=nc)
        files = sorted(f for f in os.listdir(tmp) if f.startswith('checkpoint_') and len(f) == len('checkpoint_') + 8)
        require(files == ['checkpoint_%08d' % x for x in sorted(model)], 'checkpoint files on disk differ from the last '
                '%d saved rounds' % keep, ['checkpoint_%08d' % x for x in sorted(model)], files, case=nc)
        trans += 1
      evals += 1
    finally:
      shutil.rmtree(tmp, ignore_errors=True)
  return {'evals': evals, 'nontrivial': True, 'outcome': [keep, depth], 'stats': {'save_load_transitions': trans}}


def _plain(state):
  return {k: (np.asarray(v) if hasattr(v, 'dtype') and not isinstance(v, np.generic) else v) for k, v in state.items()}


SUBS = {'special_values': special_values, 'aborted_deserialize': aborted_deserialize, 'checkpoint_api': checkpoint_api, 'arrays': arrays, 'bytes_arrays': bytes_arrays, 'scalars': scalars, 'unsupported': unsupported,
        'nesting': nesting, 'sqlite_rt': sqlite_rt, 'state_rt': state_rt}
TIMEOUTS = {k: 120 for k in SUBS}


# sub-spaces re-executed under other interpreter configurations (mc.core.CONFIGS): {configuration: {sub-space: stride}}
# quick tier: every stride-th planned case, thorough tier: all planned cases
CONFIG_PASSES = {'x64': {'arrays': 6, 'scalars': 3, 'state_rt': 1, 'checkpoint_api': 1}}


def plan(ctx):
  th = ctx.tier == 'thorough'
  ctx.rule = ('full product dtype(15) x shape x layout x byte order, each as dict value / list item / top-level; all '
              'bytes-object arrays over a 4-element pool for shapes up to 2x2; every scalar of the pool; every '
              'dict/list nesting up to the depth bound; unsupported leaves must raise or come back unaltered; '
              'non-trivial = non-C layout, swapped byte order, empty or 0-d shape')
  ctx.assumptions += ['equality = same container types/keys, dtype.name, shape and bit pattern of the native '
                      'C-contiguous copy (NaN payloads and -0.0 preserved); byte order itself need not be preserved',
                      'an unsupported leaf that round-trips exactly is not counted as a violation']
  shapes = SHAPES + ([(2, 2, 2, 2, 2), (5,)] if th else [])
  ctx.run('arrays', [{'dtype': d, 'shape': list(s), 'layout': l, 'swapped': sw, 'seed': ctx.seed}
                     for d in DTYPES for s in shapes for l in LAYOUTS for sw in (False, True)
                     if not (sw and d in ('bfloat16', 'bool', 'int8', 'uint8'))], reverse_pass=True)
  ctx.run('bytes_arrays', [{'shape': list(s), 'fortran': f} for s in [(0,), (1,), (2,), (3,), (2, 2), (0, 2), (1, 2, 1)]
                           + ([(2, 3)] if th else []) for f in (False, True)])
  ctx.run('scalars', [{'name': n} for n in _scalar_pool()])
  ctx.run('special_values', [{'dtype': d} for d in ('float16', 'bfloat16', 'float32', 'float64', 'complex64', 'complex128', 'int8',
                                                    'uint8', 'int32', 'uint64', 'bool')])
  ctx.run('unsupported', [{'name': n} for n in _unsupported()])
  ctx.run('nesting', [{'depth': 2, 'pool': '3'}, {'depth': 3, 'pool': '1'}] if th else
          [{'depth': 2, 'pool': '3'}, {'depth': 2, 'pool': '1'}])
  idsets = [['61', '6100', '6162', '62', '620000'], ['00', 'ff', ''], ['7a']]
  ctx.run('sqlite_rt', [{'ids': ids, 'sizes': [(i * 2 + o) % 4 for i in range(len(ids))], 'dtype': d, 'layout': l,
                         'swapped': sw}
                        for ids in idsets for o in (0, 1) for d in (DTYPES if th else ['int32', 'float16', 'bfloat16',
                                                                                        'complex64', 'bool', 'uint64'])
                        for l in ('C', 'F', 'strided') for sw in (False, True)
                        if not (sw and d in ('bfloat16', 'bool', 'int8', 'uint8'))] +
          # histories of the builder: several add_many calls, a reader while the builder is open, a later failing step,
          # a builder used without `with`
          [{'ids': ids, 'sizes': [(i * 2 + 1) % 4 for i in range(len(ids))], 'dtype': 'float32', 'layout': 'C', 'swapped': False,
            'how': how} for ids in idsets for how in ('two_calls', 'read_while_open', 'later_failure', 'no_with', 'second_builder', 'replaced_staged', 'replaced_staged_closed',
                                        'replaced_rebuilt', 'replaced_rebuilt_closed')])
  ctx.run('aborted_deserialize', [{'which': w, 'cut': c} for w in range(4) for c in (0.1, 0.5, 0.9)])
  ctx.run('checkpoint_api', [{'keep': k, 'depth': 3 if th else 2} for k in (1, 2, 3)])
  ctx.run('state_rt', [{'kind': 'fedavg', 'opt': o} for o in ('sgd', 'adam', 'mom')] +
          [{'kind': 'plain', 'dtype': d, 'swapped': sw} for d in ('int32', 'float64', 'bfloat16') for sw in (False, True)
           if not (sw and d == 'bfloat16')])

#!/bin/bash
# Runs the pinned baseline on a checkout (default /repo) and lists stable-pass tests that no longer pass.
REPO="${1:-/repo}"
OUT="$(mktemp -d)"
cd "$REPO" && PYTHONPATH="$REPO" JAX_PLATFORMS=cpu /venv/bin/python -m pytest -ra -q -p no:cacheprovider --timeout=900 --continue-on-collection-errors --junitxml="$OUT/j.xml" >"$OUT/log" 2>&1
python3-vt - "$OUT/j.xml" <<'PY'
import json, sys, xml.etree.ElementTree as ET
stable = set(json.load(open('/root/.vp/BASELINE.json'))['stable_pass'])
passed = set()
for tc in ET.parse(sys.argv[1]).getroot().iter('testcase'):
    bad = any(c.tag in ('failure', 'error', 'skipped') for c in tc)
    name = tc.get('classname') + '::' + tc.get('name')
    if not bad:
        passed.add(name)
missing = sorted(stable - passed)
print('stable_pass=%d passed_now=%d missing=%d' % (len(stable), len(passed), len(missing)))
for m in missing:
    print('  NO LONGER PASSING:', m)
sys.exit(1 if missing else 0)
PY
rc=$?
rm -rf "$OUT"
exit $rc

"""Writes /verif/MANIFEST.json from the table below; properties whose check module does not exist
yet are listed under not_applicable with that reason (kept current by re-running this script)."""
import glob
import json
import os
import subprocess

VERIF = os.path.dirname(os.path.dirname(os.path.abspath(__file__)))

# id -> (level category, engine, technique, level text, level note, design ref)
T = {
    'C01': ('exploration', 'E-enum+E-graph',
            'bounded exhaustive enumeration of client populations x orders x batching x optimizers x backends, '
            'plus BFS over cohort histories, against a float64 reference FedAvg',
            'every execution inside the stated bounds is run on the real algorithm and compared with an '
            'independent reference round; exhaustive over the finite alphabets, not sampled',
            'jax.random key splitting, the seeded batch stream (decided by C04) and float32 rounding '
            '(rtol 1e-4) are trusted', '3/C01'),
    'C02': ('model_checking', 'E-enum+E-sched',
            'exhaustive enumeration of batch-count profiles x programs x device counts, and stateless '
            'exploration of all thread interleavings of backend selection up to a preemption bound',
            'all client collections within bounds on every backend against the sequential fold; all '
            'schedules of the backend context manager under a controlled scheduler',
            'line-level atomicity of for_each_client.py under the scheduler; pmap on forced host devices',
            '3/C02'),
    'C03': ('exploration', 'E-enum',
            'bounded exhaustive enumeration of (N, batch_size, buckets, mode, preprocessor chain) against a '
            'reference partition',
            'the full product of small sizes is enumerated on the real batching views; every combination '
            'of N mod batch_size and bucket count below the bound is covered',
            'numpy slicing is trusted; sizes above the bound are not covered', '3/C03'),
    'C04': ('exploration', 'E-enum',
            'exhaustive enumeration of hyper-parameters and of every answer sequence of the shuffle RNG '
            '(scripted RandomState seam), plus all seeds of a finite seed set through a recording seam',
            'every permutation sequence the RNG can answer for small N is explored, so "for all seeds" is a '
            'finite covered set; counts, windows and refill points are checked on each',
            'np.random.RandomState.shuffle is assumed to return some permutation; the seam replaces it', '3/C04'),
    'C05': ('exploration', 'E-enum',
            'exhaustive enumeration of example sequences x partitions into batches x batch orders x padding '
            'rows/content per built-in metric, against the fold of single-example statistics',
            'all compositions and orders below the bound for every built-in metric and every entry point',
            'float32 rounding; example pools per metric family are finite', '3/C05'),
    'C06': ('exploration', 'E-enum',
            'exhaustive enumeration of mask patterns, datasets and padded batch geometries against the '
            'unpadded float64 value',
            'all 2^B masks and all (batch_size, buckets) geometries within bounds for grad, average loss and '
            'the algorithm passes that derive dataset-level quantities',
            'losses are finite on padded rows (masking is by multiplication)', '3/C06'),
    'C07': ('exploration', 'E-enum',
            'exhaustive enumeration of tree shapes x client counts x weight vectors x orders x iterator kinds '
            'against the float64 weighted mean, with alias/donation detection',
            'all weight vectors over {0,.5,1,2}^n, n<=4, all input orders', 'float32 rounding', '3/C07'),
    'C08': ('model_checking', 'E-graph',
            'explicit-state BFS over view-operation histories executed on the three real dataset '
            'implementations in lock-step with a dict reference model',
            'every operation sequence up to the depth bound from three roots; all access paths observed in '
            'every state; parents re-observed after deriving children',
            'SQLite engine trusted; ids/universe finite', '3/C08'),
    'C09': ('fault_enumeration', 'E-fault',
            'exhaustive crash-point and torn-write-prefix enumeration over the recorded effect trace of the '
            'real experiment loop, iterated to a fixpoint of reachable directory states',
            'crash (process death, or KeyboardInterrupt / SystemExit unwinding through the library) before every effect and after '
            'every byte prefix of every checkpoint write, from every reachable on-disk state (any number of successive crashes), '
            'for all small configurations',
            'crash = process death with prefix-persisting files; no metadata reordering', '3/C09'),
    'C10': ('model_checking', 'E-graph',
            'explicit-state BFS over cohort histories on the real algorithms; value snapshots, repeat calls, '
            'serialise-and-continue and fresh-object differential on every transition',
            'all cohort histories to the depth bound for every built-in algorithm and compression aggregator',
            'float comparisons at 1e-6; small regression model', '3/C10'),
    'C11': ('exploration', 'E-enum',
            'exhaustive enumeration of the quantizer randomness (grid-uniform seam = exact quadrature of all '
            'joint draws) over a finite vector alphabet; aggregator histories enumerated',
            'expectation, support and bounds are decided exactly over all K^d answers for the enumerated '
            'vectors', 'jax.random.uniform is replaced by the grid seam for expectation claims', '3/C11'),
    'C12': ('model_checking', 'E-graph',
            'BFS over cohort histories with the two systems of each equivalence stepped in lock-step and '
            'compared after every round',
            'all cohort histories to the depth bound for each reduction pair', 'float32 rounding', '3/C12'),
    'C13': ('model_checking', 'E-graph',
            'exhaustive enumeration of sampler operation sequences (sample / set_round_num) up to a depth '
            'bound against the table of fresh-sampler answers',
            'every order of requesting rounds up to the bound, for both dataset implementations',
            'numpy RandomState choice() is deterministic per seed', '3/C13'),
    'C14': ('exploration', 'E-enum',
            'exhaustive enumeration of score grids {-1,0,1}^(LxC), targets, masks and constructor arguments '
            'against docstring-derived references',
            'the whole tie structure below the bound is covered for every built-in metric', 'float32 rounding',
            '3/C14'),
    'C15': ('exploration', 'E-enum',
            'exhaustive enumeration of client-size sequences x batch sizes x buckets, and of every RNG answer '
            'script of the buffered shuffles',
            'all size sequences and all shuffle scripts below the bound', 'numpy trusted', '3/C15'),
    'C16': ('exploration', 'E-enum',
            'exhaustive enumeration of dtype x shape x layout x byte order x nesting, bit-pattern equality',
            'full product of the supported leaf kinds; unsupported kinds must raise', 'msgpack trusted', '3/C16'),
    'C17': ('model_checking', 'E-graph',
            'BFS over cohort histories on the real algorithms with invariants evaluated in every reached state',
            'all histories to the depth bound over cohort alphabets built to starve domains/clusters',
            'small regression model; float tolerances', '3/C17'),
    'C18': ('exploration', 'E-enum',
            'exhaustive enumeration of lengths x block sizes x basis vectors (full matrix for n<=64) against '
            'the Sylvester matrix; shapes x keys for the rotation',
            'all power-of-two lengths to 2^14 and all valid block sizes', 'float32 rounding', '3/C18'),
    'C19': ('fault_enumeration', 'E-fault',
            'exhaustive crash / I/O-error / KeyboardInterrupt injection at every effect (every block) of download and '
            'decompression, iterated to a fixpoint of cache-directory states',
            'every fault point for all payload-size classes, any number of successive faults',
            'fake transport; crash = prefix-persisting files', '3/C19'),
    'C20': ('exploration', 'E-enum',
            'exhaustive enumeration of snippet lists, sentences, crop sizes x offsets x flips, all EMNIST ids, '
            'and batch compositions; cross-check of dataset label ids against model metrics',
            'all inputs below the bounds', 'tf.image ops are the oracle for CIFAR standardisation', '3/C20'),
}


def main():
  have = {os.path.basename(f)[:3].upper() for f in glob.glob(os.path.join(VERIF, 'mc', 'checks', 'c*_*.py'))}
  na_file = os.path.join(VERIF, 'mc', 'not_applicable.json')
  na_extra = json.load(open(na_file)) if os.path.exists(na_file) else {}
  checks, na = [], []
  for pid, (cat, eng, tech, text, note, ref) in sorted(T.items()):
    if pid in na_extra:
      na.append({'property_id': pid, 'reason': na_extra[pid]})
      continue
    if pid not in have:
      na.append({'property_id': pid, 'reason': 'check not built yet (planned, see DESIGN.md section %s)' % ref})
      continue
    checks.append({
        'property_id': pid,
        'quick_cmd': './vcheck %s --tier quick' % pid,
        'thorough_cmd': './vcheck %s --tier thorough' % pid,
        'evidence_file': '/verif/evidence/%s.json' % pid,
        'replay_cmd_template': './vcheck %s --replay {path}' % pid,
        'engine': eng,
        'level_claimed': {'category': cat, 'text': text, 'design_ref': 'DESIGN.md section ' + ref},
        'level_note': note,
        'technique': tech,
    })
  src = []
  hooks_file = os.path.join(VERIF, 'mc', 'hook_commits.json')
  if os.path.exists(hooks_file):
    src = json.load(open(hooks_file))
  m = {
      'version': 1,
      'setup_cmd': './vsetup',
      'hooks': {
          'guard': 'FEDJAX_VERIF',
          'enable': 'no source hooks: all seams are installed from /verif by replacing module attributes at '
                    'run time (vcheck exports FEDJAX_VERIF=1, which the library never reads)',
          'baseline_off_cmd': 'cd /repo && /venv/bin/python -m pytest -ra -q -p no:cacheprovider --timeout=900 '
                              '--continue-on-collection-errors',
          'source_commits': src,
          'add_only': True,
      },
      'engines': [
          {'name': 'E-enum', 'path': 'mc/core.py', 'kind_free_text': 'bounded-exhaustive product enumerator '
           'over the real functions', 'serves_properties': [p for p, v in T.items() if 'E-enum' in v[1]]},
          {'name': 'E-graph', 'path': 'mc/graph.py', 'kind_free_text': 'explicit-state BFS over the real '
           'transition function with history replay', 'serves_properties': [p for p, v in T.items() if 'E-graph' in v[1]]},
          {'name': 'E-fault', 'path': 'mc/fault.py', 'kind_free_text': 'crash/fault explorer to a directory-state '
           'fixpoint', 'serves_properties': ['C09', 'C19']},
          {'name': 'E-sched', 'path': 'mc/sched.py', 'kind_free_text': 'controlled thread scheduler with '
           'iterative preemption bounding', 'serves_properties': ['C02']},
      ],
      'checks': checks,
      'not_applicable': na,
      'notes': 'All checks import fedjax from /repo (editable install) on every run. Exit 0 = held on '
               'everything explored; 1 = VIOLATION lines; 2 = harness error. Known findings: known_findings.json.',
  }
  with open(os.path.join(VERIF, 'MANIFEST.json'), 'w') as f:
    json.dump(m, f, indent=1)
  print('claimed:', [c['property_id'] for c in checks])
  print('not_applicable:', [c['property_id'] for c in na])


if __name__ == '__main__':
  main()

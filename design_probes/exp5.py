import time, numpy as np, jax, jax.numpy as jnp
import fedjax
from fedjax.algorithms import fed_avg
from fedjax.core import client_datasets as cds
def loss(params, batch, rng):
    u = jax.random.uniform(rng, ()) + 0.5
    return jnp.square(batch['x'] @ params['w'] + params['b'] - batch['y']) * u
grad_fn = fedjax.grad(loss)
def mk(n, seed):
    r = np.random.RandomState(seed)
    return cds.ClientDataset({'x': r.randn(n,2).astype(np.float32), 'y': r.randn(n).astype(np.float32)})
params = {'w': jnp.array([0.5,-0.5]), 'b': jnp.array(0.1)}
keys = jax.random.split(jax.random.PRNGKey(0), 4)
clients = [(b'a', mk(3,1), keys[0]), (b'b', mk(5,2), keys[1]), (b'c', mk(0,3), keys[2])]
copt = fedjax.optimizers.sgd(0.1); sopt = fedjax.optimizers.adam(0.1)
for bs in (1,2,3):
  for ne in (1,2):
    t0=time.time()
    hp = cds.ShuffleRepeatBatchHParams(batch_size=bs, num_epochs=ne, seed=0)
    alg = fed_avg.federated_averaging(grad_fn, copt, sopt, hp)
    st = alg.init(params)
    st1,_ = alg.apply(st, clients)
    t1=time.time()
    st2,_ = alg.apply(st1, clients[:2])
    t2=time.time()
    print(bs, ne, 'first', round(t1-t0,3), 'second', round(t2-t1,3))
